"""C18 - filter/group operations partition the list; containers never drop silently."""
from hypothesis import strategies as st

from vlib.core import Sub, Failure
from vlib import env

pytrs = env.import_pytrs()
from pytrs import Tract, TRS, TractList, TRSList, PLSSDesc  # noqa: E402

ID = "C18"
RULE = (
    "(filters) lists of 0..10 elements (parsed and unparsed tracts, the same instance twice, equal TRS, equal preprocessed "
    "description in different spellings, error and undefined components) x filter(predicate) / filter_errors(flags) / "
    "filter_duplicates(method) x drop, on TractList, TRSList and through the PLSSDesc wrappers; (groups) attribute lists of "
    "length 1..3 incl. an ad-hoc and a missing attribute x group_by / group_by_nested x into= x unpack_group; (construct) every "
    "construction path {constructor, extend, +=, +, append, insert, item assignment, from_multiple with nesting <= 3} x "
    "iterables of acceptable elements with at most one unacceptable element (int, None, float, object, str for a TractList, a "
    "PLSSDesc inside a list) at a random position, for both containers; (independence) a container built from another one by "
    "the constructor, copy(), + [], from_multiple, a slice, * n or *= n holds the same elements (n times) and 1..3 later changes "
    "(pop, append, extend, +=, insert, item assignment, sort, the three filters with drop=True) to either list leave the other "
    "exactly as it was. Oracle: plain-list reference models. Non-trivial: >= 3 "
    "elements incl. a duplicate or an error (filters/groups); a mixed iterable (construct). Distinct = distinct case."
)
ASSUMPTIONS = [
    "filter_duplicates(method='instance') is exercised on TractList only (TRS objects compare by value, so 'same instance' has no separate meaning for a TRSList).",
    "For from_multiple a PLSSDesc, TractList or nested list/tuple is an acceptable container at any depth; dicts are not generated.",
]

T_COMP = ["1n", "2n", "1s", "XXXz", "___z"]
R_COMP = ["1w", "2w", "1e", "XXXz", "___z"]
S_COMP = ["01", "02", "XX", "__"]
DESCS = ["NE/4", "Northeast Quarter", "NE¼", "Lots 1 - 3, S/2NE/4", "Lot 3, S/2NE/4, Lots 1, 2", "W/2", "That part lying north of the river",
         # the same lots / aliquots with repeats inside one description (the lots_qqs method compares them as sets)
         "NE/4, N/2NE/4", "Lots 1 - 3", "Lot 3, Lots 1 - 3", "NE/4", "NE/4, N/2NE/4", "Lots 1 - 3", "Lot 3, Lots 1 - 3"]

ELEM = st.fixed_dictionaries({
    "t": st.sampled_from(T_COMP[:3] * 3 + T_COMP), "r": st.sampled_from(R_COMP[:3] * 3 + R_COMP), "s": st.sampled_from(S_COMP[:2] * 3 + S_COMP),
    "desc": st.sampled_from(DESCS), "parsed": st.sampled_from([True, True, False]), "source": st.sampled_from([None, "a", "b", 7]),
})
# the same land written with a repeat inside the description (a duplicate by its set of lots / aliquots, not by its text)
REPEAT_VARIANT = {"NE/4": "NE/4, N/2NE/4", "Northeast Quarter": "NE/4, N/2NE/4", "NE¼": "N/2NE/4, NE/4", "Lots 1 - 3": "Lot 3, Lots 1 - 3", "W/2": "W/2, NW/4",
                  "Lots 1 - 3, S/2NE/4": "Lots 1 - 3, S/2NE/4, Lot 2"}


def _with_twins(t):
    elems, picks = t
    out = list(elems)
    for p in picks:
        if out:
            e = out[p % len(out)]
            if e["desc"] in REPEAT_VARIANT:
                out[p % len(out)] = dict(e, parsed=True)
                out.insert((p * 3) % (len(out) + 1), dict(e, desc=REPEAT_VARIANT[e["desc"]], parsed=True))
    return out[:12]


LIST = st.tuples(st.lists(ELEM, min_size=0, max_size=10), st.lists(st.integers(0, 9), max_size=2)).map(_with_twins)
DUPS = st.lists(st.integers(0, 9), max_size=3)


def make_tracts(elems, dups):
    objs = [Tract(e["desc"], trs=e["t"] + e["r"] + e["s"], parse_qq=e["parsed"], source=e["source"]) for e in elems]
    lst = list(objs)
    for p in dups:
        if objs:
            lst.insert((p * 7) % (len(lst) + 1), objs[p % len(objs)])
    return lst


def is_err(trs_parts, twp, rge, sec, undef):
    t, r, s = trs_parts
    err = (twp and t == "XXXz") or (rge and r == "XXXz") or (sec and s == "XX")
    und = undef and ((twp and t == "___z") or (rge and r == "___z") or (sec and s == "__"))
    return bool(err or und)


def parts(trs):
    t = trs[:4] if trs[:4] in ("XXXz", "___z") else trs[:2]
    rest = trs[len(t):]
    r = rest[:4] if rest[:4] in ("XXXz", "___z") else rest[:2]
    return t, r, rest[len(r):]


PREDS = {
    "north": lambda x: x.twp_ns == "n",
    "sec1": lambda x: x.sec_num == 1,
    "never": lambda x: False,
    "always": lambda x: True,
    "rge_num_2": lambda x: x.rge_num == 2,
    "no_twp": lambda x: x.twp_num is None,
}


def _first_seen():
    seen = set()

    def pred(x):
        new = x.trs not in seen
        seen.add(x.trs)
        return new
    return pred


def _every_other():
    n = [0]

    def pred(x):
        n[0] += 1
        return n[0] % 2 == 1
    return pred


# predicates that remember what they were asked before (a 'first of its Twp/Rge/Sec' filter, a counter): each element is asked once, in list order
STATEFUL = {"first_seen_trs": _first_seen, "every_other_call": _every_other}

FILTER_CASE = st.fixed_dictionaries({
    "elems": LIST, "dups": DUPS, "container": st.sampled_from(["TractList", "TRSList", "PLSSDesc"]),
    "op": st.sampled_from(["filter", "filter_errors", "filter_duplicates"]), "drop": st.booleans(),
    "pred": st.sampled_from(sorted(PREDS) + sorted(STATEFUL)), "twp": st.booleans(), "rge": st.booleans(), "sec": st.booleans(), "undef": st.booleans(),
    "method": st.sampled_from(["instance", "lots_qqs", "desc", "trs", "default"]),
})

_last = {}


def oracle_filter(c):
    tracts = make_tracts(c["elems"], c["dups"])
    kind = c["container"]
    if kind == "TRSList":
        cont = TRSList(tracts)
        items = list(cont)
    elif kind == "PLSSDesc":
        d = PLSSDesc("T154N-R97W Sec 14: NE/4")
        d.tracts = TractList(tracts)
        cont = d.tracts
        items = list(cont)
    else:
        cont = TractList(tracts)
        items = list(cont)
    target = d if kind == "PLSSDesc" else cont
    op = c["op"]
    method = c["method"]
    if op == "filter":
        if c["pred"] in STATEFUL:
            model_pred, real_pred = STATEFUL[c["pred"]](), STATEFUL[c["pred"]]()
        else:
            model_pred = real_pred = PREDS[c["pred"]]
        sel = [model_pred(x) for x in items]
        ret = target.filter(real_pred, drop=c["drop"])
        label = f"filter({c['pred']})"
    elif op == "filter_errors":
        sel = [is_err(parts(x.trs), c["twp"], c["rge"], c["sec"], c["undef"]) for x in items]
        ret = target.filter_errors(twp=c["twp"], rge=c["rge"], sec=c["sec"], undef=c["undef"], drop=c["drop"])
        label = f"filter_errors(twp={c['twp']}, rge={c['rge']}, sec={c['sec']}, undef={c['undef']})"
    else:
        if kind == "TRSList" and method == "instance":
            method = "trs"
        eff = method
        if eff == "default":
            eff = "trs" if kind == "TRSList" else "instance"
        seen_ids, seen_keys, sel = set(), set(), []
        for x in items:
            key = None
            if kind == "TRSList":
                key = x.trs if eff in ("trs", "desc") else None
                same = False if eff == "lots_qqs" else None
                ident = x.trs      # TRS objects compare by value
            else:
                ident = id(x)
                if eff == "trs":
                    key = ("trs", x.trs)
                elif eff == "desc":
                    key = ("desc", x.trs, x.pp_desc.strip())
                elif eff == "lots_qqs" and x.parse_complete:
                    key = ("lq", x.trs, tuple(sorted(set(x.lots_qqs))))
            dup = ident in seen_ids or (key is not None and key in seen_keys)
            sel.append(dup)
            seen_ids.add(ident)
            if key is not None:
                seen_keys.add(key)
        ret = target.filter_duplicates(method=method, drop=c["drop"])
        label = f"filter_duplicates({method!r})"
    want_ret = [id(x) for x, s in zip(items, sel) if s]
    want_rest = [id(x) for x, s in zip(items, sel) if not s] if c["drop"] else [id(x) for x in items]
    got_ret = [id(x) for x in ret]
    got_rest = [id(x) for x in cont]
    fails = []
    ctx = dict(container=kind, op=label, drop=c["drop"], items=[x.trs for x in items], selected=sel, returned=[x.trs for x in ret], remaining=[x.trs for x in cont])
    if got_ret != want_ret:
        fails.append(Failure(f"{op}_returned", f"{kind}.{label} drop={c['drop']} on {ctx['items']} returned {ctx['returned']}, expected the elements at {[i for i, s in enumerate(sel) if s]}", **ctx))
    if got_rest != want_rest:
        fails.append(Failure(f"{op}_remaining", f"{kind}.{label} drop={c['drop']} on {ctx['items']} left {ctx['remaining']}", **ctx))
    if type(ret) is not type(cont):
        fails.append(Failure(f"{op}_return_type", f"{kind}.{label} returned a {type(ret).__name__}", **ctx))
    _last["nt"] = len(items) >= 3 and (any(sel) and not all(sel))
    return fails


def filter_classes(c):
    out = [f"op={c['op']}", f"container={c['container']}", "drop" if c["drop"] else "nodrop"]
    if c["op"] == "filter_duplicates":
        out.append(f"method={c['method']}")
    if c["dups"] and c["elems"]:
        out.append("same_instance_twice")
    if _last.get("nt"):
        out.append("proper_subset_selected")
    return out


# ---------------------------------------------------------------------------
ATTRS = ["twprge", "trs", "sec", "twp", "rge", "twp_num", "sec_num", "desc", "source", "nonexistent", "parse_complete"]
GROUP_CASE = st.fixed_dictionaries({
    "elems": LIST, "dups": DUPS, "container": st.sampled_from(["TractList", "TRSList", "PLSSDesc"]),
    "attrs": st.lists(st.sampled_from(ATTRS), min_size=1, max_size=3), "as_list": st.booleans(), "nested": st.booleans(),
    "into": st.booleans(), "sort_key": st.sampled_from([None, None, "s,t", "i"]),
})


def attr_of(x, a):
    return getattr(x, a, f"{a}: n/a")


def flatten_groups(g, depth):
    """Yield (key path, list-like) pairs of a grouped dict of the given nesting depth."""
    if depth <= 1:
        for k, v in g.items():
            yield (k,), v
    else:
        for k, v in g.items():
            if not isinstance(v, dict):
                raise TypeError("expected a nested dict")
            for path, lst in flatten_groups(v, depth - 1):
                yield (k,) + path, lst


def oracle_group(c):
    tracts = make_tracts(c["elems"], c["dups"])
    kind = c["container"]
    attrs = list(c["attrs"])
    if kind == "TRSList":
        attrs = [a for a in attrs if a not in ("desc", "source", "parse_complete")] or ["twprge"]
        cont = TRSList(tracts)
        target = cont
    elif kind == "PLSSDesc":
        d = PLSSDesc("T154N-R97W Sec 14: NE/4")
        d.tracts = TractList(tracts)
        cont, target = d.tracts, d
    else:
        cont = TractList(tracts)
        target = cont
    items = list(cont)
    arg = attrs if (c["as_list"] or len(attrs) > 1) else attrs[0]
    n = len(attrs)
    into = {} if c["into"] else None
    fn = target.group_by_nested if c["nested"] else target.group_by
    label = f"{kind}.{'group_by_nested' if c['nested'] else 'group_by'}({arg!r}, into={'{}' if c['into'] else None}, sort_key={c['sort_key']!r})"
    if c["into"] and len(items) >= 2:
        # group the first half into the dict, then the whole call adds the second half to the same dict
        k = len(items) // 2
        first = type(cont)(items[:k])
        (first.group_by_nested if c["nested"] else first.group_by)(arg, into=into)
        rest = type(cont)(items[k:])
        if kind == "PLSSDesc":
            d.tracts = rest
            fn = d.group_by_nested if c["nested"] else d.group_by
        else:
            fn = rest.group_by_nested if c["nested"] else rest.group_by
        g = fn(arg, into=into, sort_key=c["sort_key"])
        if kind == "PLSSDesc":
            d.tracts = cont
    else:
        g = fn(arg, into=into, sort_key=c["sort_key"])
    fails = []
    ctx = dict(call=label, items=[x.trs for x in items])
    if c["into"] and g is not into:
        fails.append(Failure("group_into_not_returned", f"{label}: the dict passed as into= was not the one returned", **ctx))
    # model
    depth = n if c["nested"] else 1
    try:
        pairs = list(flatten_groups(g, depth))
    except Exception as exc:  # noqa
        return [Failure("group_shape", f"{label}: result is not a {depth}-level dict ({exc})", **ctx)]
    seen = []
    for path, lst in pairs:
        if not isinstance(lst, type(cont)):
            fails.append(Failure("group_value_type", f"{label}: group {path} holds a {type(lst).__name__}", **ctx))
            continue
        if not c["nested"] and n > 1:
            keyvals = path[0] if isinstance(path[0], tuple) else (path[0],)
        else:
            keyvals = path
        members = [id(x) for x in lst]
        want_members = [id(x) for x in items if tuple(attr_of(x, a) for a in attrs) == tuple(keyvals)]
        if c["sort_key"] is None:
            if members != want_members:
                fails.append(Failure("group_members", f"{label}: group {keyvals} holds {[x.trs for x in lst]}, expected the matching elements in original order", **ctx))
        elif sorted(members) != sorted(want_members):
            fails.append(Failure("group_members", f"{label}: group {keyvals} holds {[x.trs for x in lst]}, expected exactly the matching elements", **ctx))
        seen.extend(members)
    if sorted(seen) != sorted(id(x) for x in items):
        fails.append(Failure("group_not_a_partition", f"{label}: the groups together hold {len(seen)} elements, the list has {len(items)}", **ctx))
    un = type(cont).unpack_group(g)
    if sorted(id(x) for x in un) != sorted(id(x) for x in items):
        fails.append(Failure("unpack_group", f"{label}: unpack_group returns {len(un)} elements, the list has {len(items)}", **ctx))
    if [id(x) for x in cont] != [id(x) for x in items]:
        fails.append(Failure("group_mutates_source", f"{label}: the source list was changed", **ctx))
    _last["nt"] = len(items) >= 3 and len(pairs) >= 2
    seen_sig, out = set(), []
    for f in fails:
        if f.sig not in seen_sig:
            seen_sig.add(f.sig)
            out.append(f)
    return out


def group_classes(c):
    return [f"container={c['container']}", f"nattrs={len(c['attrs'])}", "nested" if c["nested"] else "flat", "into" if c["into"] else "nointo"] + \
        (["several_groups"] if _last.get("nt") else [])


# ---------------------------------------------------------------------------
BAD = ["int", "none", "float", "object", "str", "plss_in_list", "empty_str"]
PATHS = ["constructor", "extend", "iadd", "add", "append", "insert", "setitem", "from_multiple", "from_multiple_nested"]
CONS_CASE = st.fixed_dictionaries({
    "container": st.sampled_from(["TractList", "TRSList"]), "path": st.sampled_from(PATHS + ["from_multiple", "from_multiple"]),
    "initial": st.lists(ELEM, min_size=0, max_size=3), "good": st.lists(st.tuples(st.sampled_from(["tract", "str", "trs", "tract", "str", "trs", "empty_str"]), ELEM), min_size=0, max_size=5),
    "bad": st.sampled_from([None, None] + BAD), "pos": st.integers(0, 5), "nest": st.integers(1, 3), "wrap": st.sampled_from(["list", "tuple", "generator"]),
    # from_multiple: hand some of the supplied elements over inside a TractList / a list of the same class / a PLSSDesc-like container
    "pack": st.sampled_from(["none", "none", "tractlist", "samelist", "tractlist_nested"]),
})


def mk(e):
    return Tract(e["desc"], trs=e["t"] + e["r"] + e["s"])


def oracle_construct(c):
    kind = c["container"]
    cls = TractList if kind == "TractList" else TRSList
    initial = [mk(e) for e in c["initial"]]
    supplied = []       # (object handed over, expected trs string)
    for how, e in c["good"]:
        trs = e["t"] + e["r"] + e["s"]
        if how == "empty_str" and kind == "TRSList":
            supplied.append(("", "___z___z__"))        # the empty string is the undefined Twp/Rge/Sec
        elif kind == "TractList" or how == "tract":
            supplied.append((mk(e), None))
        elif how == "str":
            supplied.append((trs, trs))
        else:
            supplied.append((TRS(trs), trs))
    bad = c["bad"]
    if bad in ("str", "empty_str") and kind == "TRSList":
        bad = "int"             # a str is acceptable to a TRSList
    badobj = {"int": 5, "none": None, "float": 1.5, "object": object(), "str": "154n97w14", "empty_str": "", None: None}.get(bad)
    if bad == "plss_in_list":
        badobj = PLSSDesc("T154N-R97W Sec 14: NE/4, Sec 15: W/2")
    objs = [o for o, _ in supplied]
    path = c["path"]
    has_bad = bad is not None
    if path.startswith("from_multiple") and bad == "plss_in_list":
        # a PLSSDesc is an acceptable container for from_multiple: its tracts are the supplied elements
        inner = list(badobj.tracts)
        objs.insert(min(c["pos"], len(objs)), badobj)
        has_bad = False
        expanded = []
        for o in objs:
            expanded.extend(inner if o is badobj else [o])
    else:
        if has_bad:
            objs.insert(min(c["pos"], len(objs)), badobj)
        expanded = [o for o in objs if not (has_bad and o is badobj)]
    single = path in ("append", "insert", "setitem")
    if single:
        objs = objs[:1] if not has_bad else [badobj]
        expanded = [] if has_bad else objs
        if not objs:
            return []
    cont = cls(initial)
    before = [id(x) for x in cont] if kind == "TractList" else [x.trs for x in cont]
    n0 = len(cont)

    def wrap(seq):
        if c["wrap"] == "tuple":
            return tuple(seq)
        if c["wrap"] == "generator":
            return (x for x in seq)
        return list(seq)

    result = cont
    err = None
    extra_fail = None
    try:
        if path == "constructor":
            result = cls(wrap(objs))
            n0, before_local = 0, []
        elif path == "extend":
            cont.extend(wrap(objs))
        elif path == "iadd":
            cont += wrap(objs)
            result = cont
        elif path == "add":
            result = cont + wrap(objs)
        elif path == "append":
            cont.append(objs[0])
        elif path == "insert":
            cont.insert(0, objs[0])
        elif path == "setitem":
            if n0 == 0:
                return []
            cont[0] = objs[0]
        elif path == "from_multiple":
            args = list(objs)
            pack = c.get("pack", "none")
            if pack != "none" and not has_bad and len(args) >= 2 and not any(isinstance(x, PLSSDesc) for x in args[:2]) \
                    and not any(h == "empty_str" for h, _ in c["good"][:2]):
                head, tail = args[:2], args[2:]
                if pack in ("tractlist", "tractlist_nested"):
                    # (for a TRSList the first two elements are handed over as Tract objects inside a TractList)
                    if kind == "TRSList":
                        head = [mk(e) for _, e in c["good"][:2]]
                    packed = TractList(head)
                    args = [[packed] if pack == "tractlist_nested" else packed] + tail
                elif pack == "samelist":
                    args = [cls(head)] + tail
            result = cls.from_multiple(*args)
            n0 = 0
            if not has_bad and len(objs) >= 2 and not any(isinstance(x, PLSSDesc) for x in objs) and not any(h == "empty_str" for h, _ in c["good"]):
                # one list object named more than once, and short-lived lists made on the fly: every mention counts
                pair = [objs[0], objs[1]]
                shapes = {"same_list_twice": lambda: cls.from_multiple(pair, objs[-1], pair),
                          "same_list_at_two_depths": lambda: cls.from_multiple([pair, objs[-1]], pair),
                          "list_repeated": lambda: cls.from_multiple([pair] * 3),
                          "temporary_lists": lambda: cls.from_multiple([o] for o in (objs[0], objs[1], objs[0], objs[-1]))}
                wants = {"same_list_twice": pair + [objs[-1]] + pair, "same_list_at_two_depths": pair + [objs[-1]] + pair, "list_repeated": pair * 3,
                         "temporary_lists": [objs[0], objs[1], objs[0], objs[-1]]}
                for shape, fn in shapes.items():
                    got_r = [TRS(x).trs if isinstance(x, str) else x.trs for x in fn()]
                    want_r = [TRS(o).trs if isinstance(o, str) else o.trs for o in wants[shape]]
                    if got_r != want_r:
                        extra_fail = Failure(f"elements_missing:from_multiple_{shape}", f"{kind}.from_multiple with {shape}: holds {got_r}, supplied {want_r}", path=path, container=kind)
                        break
        elif path == "from_multiple_nested":
            nested = list(objs)
            for _ in range(c["nest"]):
                nested = [nested[:1], nested[1:]] if len(nested) > 1 else [nested]
            result = cls.from_multiple(nested)
            n0 = 0
    except TypeError as exc:
        err = exc
    label = f"{kind} via {path}" + (f" with a {bad} at {min(c['pos'], len(supplied))}" if has_bad else "")
    ctx = dict(path=path, container=kind, bad=bad, supplied=[getattr(o, "trs", repr(o)) for o in objs])
    fails = []
    if err is not None:
        now = [id(x) for x in cont] if kind == "TractList" else [x.trs for x in cont]
        if path not in ("constructor", "from_multiple", "from_multiple_nested", "add") and now != before:
            fails.append(Failure(f"typeerror_but_changed:{path}", f"{label}: TypeError was raised but the container changed", **ctx))
        if not has_bad:
            fails.append(Failure(f"typeerror_on_acceptable:{path}", f"{label}: TypeError {err!s:.120} although every element is acceptable", **ctx))
        _last["mixed"] = has_bad
        return fails
    # no exception: every supplied element must be there, in order
    held = list(result)
    if path == "insert":
        new = held[:1]
    elif path == "setitem":
        new = held[:1]
    elif path in ("constructor", "from_multiple", "from_multiple_nested"):
        new = held
    else:
        new = held[n0:]
    if has_bad:
        fails.append(Failure(f"silently_dropped:{path}", f"{label}: no TypeError, and the container holds {len(new)} new elements for {len(objs)} supplied", **ctx))
        _last["mixed"] = True
        return fails
    if kind == "TractList":
        if [id(x) for x in new] != [id(x) for x in expanded]:
            fails.append(Failure(f"elements_missing:{path}", f"{label}: holds {[x.trs for x in new]}, supplied {[x.trs for x in expanded]}", **ctx))
    else:
        if any(not isinstance(x, TRS) for x in held):
            fails.append(Failure(f"non_trs_stored:{path}", f"{label}: stores {[type(x).__name__ for x in held if not isinstance(x, TRS)]} instead of TRS objects", **ctx))
        else:
            want = [o if isinstance(o, str) else o.trs for o in expanded]
            want = [TRS(w).trs for w in want]
            if [x.trs for x in new] != want:
                fails.append(Failure(f"elements_missing:{path}", f"{label}: holds {[x.trs for x in new]}, supplied {want}", **ctx))
    if extra_fail is not None:
        fails.append(extra_fail)
    _last["mixed"] = False
    return fails


def cons_classes(c):
    return [f"path={c['path']}", f"container={c['container']}", f"bad={c['bad']}", f"pack={c.get('pack')}"]


# independence: a container built from another one is a container of its own ------------------------------------
# (building, copying, repeating and then changing either list must never add to or take from the other)

BUILD = ["constructor", "copy", "add_empty", "from_multiple", "slice_all", "mul", "imul", "plss_tracts"]
MUTATE = ["pop", "append", "filter_drop", "filter_errors_drop", "filter_duplicates_drop", "sort", "setitem", "extend", "iadd", "insert"]
INDEP_CASE = st.fixed_dictionaries({
    "container": st.sampled_from(["TractList", "TRSList"]), "elems": st.lists(ELEM, min_size=1, max_size=6),
    "build": st.sampled_from(BUILD), "n": st.integers(0, 3), "mutate": st.lists(st.sampled_from(MUTATE), min_size=1, max_size=3),
    "side": st.sampled_from(["built", "source"]), "extra": st.lists(ELEM, min_size=1, max_size=2), "pos": st.integers(0, 9),
})


def snapshot(cont):
    return [(id(x), x.trs) for x in cont]


def oracle_independence(c):
    kind = c["container"]
    cls = TractList if kind == "TractList" else TRSList
    src_objs = [mk(e) for e in c["elems"]]
    desc = None
    if c["build"] == "plss_tracts":
        desc = PLSSDesc("T154N-R97W Sec 14: NE/4, Sec 15: W/2, Sec 16 - 18: Lots 1 - 3")
        source = desc.tracts
        if kind == "TRSList":
            source = TRSList(desc.tracts)
    else:
        source = cls(src_objs)
    want_src = snapshot(source)
    n = c["n"]
    how = c["build"]
    if how in ("constructor", "plss_tracts"):
        built = cls(source)
    elif how == "copy":
        built = source.copy()
    elif how == "add_empty":
        built = source + []
    elif how == "from_multiple":
        built = cls.from_multiple(source)
    elif how == "slice_all":
        built = cls(source[:])
    elif how == "mul":
        built = source * n
    else:
        built = source.copy()
        built *= n
    rep = n if how in ("mul", "imul") else 1
    label = f"{kind} built by {how}" + (f" x{n}" if how in ("mul", "imul") else "")
    ctx = dict(container=kind, build=how, n=n, source=[t for _, t in want_src])
    fails = []
    if type(built) is not cls:
        return [Failure(f"built_wrong_type:{how}", f"{label}: result is a {type(built).__name__}", **ctx)]
    if [t for _, t in snapshot(built)] != [t for _, t in want_src] * rep:
        return [Failure(f"built_elements:{how}", f"{label}: holds {[x.trs for x in built]}, source holds {ctx['source']}", **ctx)]
    if kind == "TractList" and [i for i, _ in snapshot(built)] != [i for i, _ in want_src] * rep:
        return [Failure(f"built_instances:{how}", f"{label}: does not hold the supplied Tract instances", **ctx)]
    if snapshot(source) != want_src:
        return [Failure(f"source_changed_by_building:{how}", f"{label}: building changed the source list", **ctx)]
    # now change one of the two, the other must stay as it is
    victim, other = (built, source) if c["side"] == "built" else (source, built)
    other_before = snapshot(other)
    for op in c["mutate"]:
        m = len(victim)
        new = [mk(e) for e in c["extra"]]
        if op == "pop":
            if m:
                victim.pop(c["pos"] % m)
        elif op == "append":
            victim.append(new[0])
        elif op == "extend":
            victim.extend(new)
        elif op == "iadd":
            victim += new
        elif op == "insert":
            victim.insert(c["pos"] % (m + 1), new[0])
        elif op == "setitem":
            if m:
                victim[c["pos"] % m] = new[0]
        elif op == "sort":
            victim.custom_sort("s.rev,r.ew,t.sn")
        elif op == "filter_drop":
            victim.filter(lambda x: x.sec_num is not None and x.sec_num % 2 == 0, drop=True)
        elif op == "filter_errors_drop":
            victim.filter_errors(drop=True, undef=True)
        elif op == "filter_duplicates_drop":
            victim.filter_duplicates("trs", drop=True)
        if snapshot(other) != other_before:
            fails.append(Failure(f"aliased:{how}", f"{label}: {op} on the {c['side']} list changed the other list from {[t for _, t in other_before]} to {[x.trs for x in other]}",
                                 op=op, side=c["side"], **ctx))
            return fails
    if kind == "TRSList" and len(src_objs) >= 1 and desc is None:
        # a TRSList makes its own TRS objects from what it is given; changing one of them in place (documented setters) changes that
        # one element only: not its equal-valued neighbours, and not what a list built later from the same strings holds
        strings = [o if isinstance(o, str) else o.trs for o in src_objs]
        strings = [TRS(x).trs for x in strings] * 2
        first = TRSList(strings)
        first[0].set_twprgesec(155, 98, 1) if c["pos"] % 2 else setattr(first[0], "trs", "155n98w01")
        if [x.trs for x in first[1:]] != strings[1:]:
            fails.append(Failure("element_change_spreads", f"TRSList({strings}): after element 0 was set to 155n98w01 the list reads {[x.trs for x in first]}", **ctx))
        for how2, later in (("constructor", TRSList(strings)), ("from_multiple", TRSList.from_multiple(strings[:1], strings[1:])), ("extend", TRSList())):
            if how2 == "extend":
                later.extend(strings)
            if [x.trs for x in later] != strings:
                fails.append(Failure("later_list_sees_earlier_change", f"after an element of an earlier TRSList was changed in place, TRSList by {how2} from {strings} holds {[x.trs for x in later]}", **ctx))
                break
    if desc is not None and c["side"] == "built" and snapshot(desc.tracts) != (want_src if kind == "TractList" else snapshot(desc.tracts)):
        fails.append(Failure("aliased:plss_tracts", f"{label}: the description's own tracts changed", **ctx))
    return fails


def indep_classes(c):
    return [f"build={c['build']}", f"container={c['container']}", f"side={c['side']}"] + [f"mutate={m}" for m in c["mutate"]]


SUBS = [
    Sub("filters", oracle_filter, strategy=lambda tier: FILTER_CASE, nontrivial=lambda c: bool(_last.get("nt")), classes=filter_classes, render=lambda c: c,
        n={"quick": 1000, "thorough": 12000}, shards={"quick": 6, "thorough": 16},
        essential=("op=filter", "op=filter_errors", "op=filter_duplicates", "container=TRSList", "container=PLSSDesc", "drop", "same_instance_twice",
                   "method=lots_qqs", "method=desc", "proper_subset_selected")),
    Sub("groups", oracle_group, strategy=lambda tier: GROUP_CASE, nontrivial=lambda c: bool(_last.get("nt")), classes=group_classes, render=lambda c: c,
        n={"quick": 800, "thorough": 10000}, shards={"quick": 6, "thorough": 16},
        essential=("nested", "flat", "into", "nattrs=2", "nattrs=3", "container=TRSList", "several_groups")),
    Sub("construct", oracle_construct, strategy=lambda tier: CONS_CASE, nontrivial=lambda c: c["bad"] is not None, classes=cons_classes, render=lambda c: c,
        n={"quick": 1000, "thorough": 12000}, shards={"quick": 4, "thorough": 16},
        essential=tuple(f"path={p}" for p in PATHS) + tuple(f"bad={b}" for b in BAD) + ("pack=tractlist", "pack=samelist")),
    Sub("independence", oracle_independence, strategy=lambda tier: INDEP_CASE, nontrivial=lambda c: len(c["elems"]) >= 2, classes=indep_classes, render=lambda c: c,
        n={"quick": 600, "thorough": 8000}, shards={"quick": 4, "thorough": 16},
        essential=tuple(f"build={b}" for b in BUILD) + ("side=source", "side=built", "mutate=filter_drop", "mutate=pop")),
]
