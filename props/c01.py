"""C01 - descriptions in the documented layouts parse back to exactly their tracts."""
import re

from hypothesis import strategies as st

from vlib.core import Sub, Failure
from vlib import env, grammar as G, lists as L

pytrs = env.import_pytrs()
from pytrs import PLSSDesc  # noqa: E402

ID = "C01"
RULE = (
    "Abstract descriptions (1..3 Twp/Rge groups x 1..3 section groups, each a single section, an 'and' list or a "
    "through-range in any keyword/connective spelling, x description blocks from an open vocabulary of aliquots, lots, ALL, "
    "deed prose and multi-line blocks) rendered in each of the four documented layouts (one sub-check per layout, so each "
    "gets the same share) with independently drawn Twp/Rge spelling (11 spellings), colon / 'of' / 'in' connectors, "
    "comma / semicolon / newline / blank-line / space separators, N/S x E/W and 1-3 digit numbers; in the two section-first layouts the Twp/Rge "
    "may also be written without its directions (read as N / W, with a warning); the text may come with white space and line breaks "
    "around it, as pasted text does. Expected tracts are "
    "computed from the abstract value. Non-trivial: >= 2 tracts and at least one of {several Twp/Rge groups, a through-"
    "range, a Twp/Rge spelling other than T154N-R97W style}. Distinct = distinct abstract description incl. rendering choices."
)
ASSUMPTIONS = [
    "Blocks satisfy the harness-side predicate block_ok (no Twp/Rge, section or P.M. look-alike; start with a letter; do not start or end with characters/words that cleanup strips).",
    "desc_STR: the joiner between a section and its trailing Twp/Rge is a separator, not 'of'/'in' (DESIGN 6.2).",
    "A bare '154N-97W' spelling is not generated directly after a section list or with range 2 (DESIGN 3.1).",
]


def ws(s):
    return re.sub(r"\s+", " ", s).strip()


LEAD_PAD = ["", "", "", "", "\n", "\n\n", "  ", "\n    ", "\r\n\t", "\t", " \n "]
TRAIL_PAD = ["", "", "", "\n", "  ", "\n\n", " \n"]


def full_text(d):
    """The rendered description, as pasted text comes: possibly with white space / line breaks around it."""
    pad = d.get("pad") or ["", ""]
    text = pad[0] + G.render(d) + pad[1]
    if d.get("eol") == "crlf":
        # the same text as a Windows editor saves it
        text = text.replace("\r\n", "\n").replace("\n", "\r\n")
    return text


def eol_norm(d):
    """With Windows line ends the library reads CR LF as line breaks; blocks are then compared up to how a line break is
    written (a run of CR / LF = one line break), and never stripped: a stray CR at the end of a block is a difference."""
    if d.get("eol") == "crlf":
        return lambda pairs: [(a, re.sub(r"[\r\n]+", "\n", b)) for a, b in pairs]
    return lambda pairs: list(pairs)


def oracle(d):
    text = full_text(d)
    norm = eol_norm(d)
    exp = norm(G.expected_tracts(d))
    desc = PLSSDesc(text)
    got = norm([(t.trs, t.desc) for t in desc.tracts])
    fails = []
    ctx = dict(text=text, layout=d["layout"], got=got, want=exp, deduced=desc.current_layout,
               e_flags=list(desc.e_flags))
    if got != exp:
        if [g[0] for g in got] != [e[0] for e in exp]:
            fails.append(Failure(f"tracts_trs:{d['layout']}", f"{text!r}: tracts {[g[0] for g in got]} expected {[e[0] for e in exp]}", **ctx))
        else:
            bad = next((g, e) for g, e in zip(got, exp) if g != e)
            fails.append(Failure(f"tracts_desc:{d['layout']}", f"{text!r}: tract {bad[0][0]} desc {bad[0][1]!r} expected {bad[1][1]!r}", **ctx))
        return fails
    if desc.current_layout != d["layout"]:
        fails.append(Failure(f"layout:{d['layout']}", f"{text!r}: deduced {desc.current_layout}, written as {d['layout']}", **ctx))
    if desc.e_flags:
        fails.append(Failure(f"e_flags:{d['layout']}", f"{text!r}: error flags {desc.e_flags}", **ctx))
    # being told the layout it was written in must give what deducing it gave
    for how, forced in (("init keyword", PLSSDesc(text, layout=d["layout"])), ("config", PLSSDesc(text, config=d["layout"]))):
        gotf = norm([(t.trs, t.desc) for t in forced.tracts])
        if gotf != exp or forced.e_flags:
            fails.append(Failure(f"forced_layout:{d['layout']}", f"{text!r}: layout {d['layout']} given by {how} yields {gotf} {forced.e_flags}, deduced parse yields {exp}", **ctx))
            break
    # every tract carries the complete original text
    # round trip through the library's own pretty-printed rendering
    pretty = desc.pretty_desc(justify_linebreaks="")
    d2 = PLSSDesc(pretty)
    got2 = norm([(t.trs, t.desc) for t in d2.tracts])
    if got2 != exp:
        fails.append(Failure("pretty_roundtrip", f"pretty_desc {pretty!r} parses to {got2}, expected {exp}", pretty=pretty, **ctx))
    elif d2.e_flags or d2.current_layout != "TRS_desc":
        fails.append(Failure("pretty_roundtrip_flags", f"pretty_desc {pretty!r}: layout {d2.current_layout} e_flags {d2.e_flags}", pretty=pretty, **ctx))
    pretty_default = desc.pretty_desc()
    d3 = PLSSDesc(pretty_default)
    got3 = [(t.trs, ws(t.desc)) for t in d3.tracts]
    if got3 != [(a, ws(b)) for a, b in exp]:
        fails.append(Failure("pretty_default_roundtrip", f"default pretty_desc {pretty_default!r} parses to {got3}", pretty=pretty_default, **ctx))
    elif d3.e_flags:
        fails.append(Failure("pretty_default_roundtrip_flags", f"default pretty_desc {pretty_default!r}: e_flags {d3.e_flags}", **ctx))
    return fails


def nontrivial(d):
    n_tracts = sum(len(L.expand(s["lst"]["items"])) for g in d["groups"] for s in g["secs"])
    multi = len(d["groups"]) > 1
    has_range = any(it[0] == "range" for g in d["groups"] for s in g["secs"] for it in s["lst"]["items"])
    odd_sp = any(g["tr_sp"] != "std" for g in d["groups"])
    return n_tracts >= 2 and (multi or has_range or odd_sp)


def classes(d):
    out = {f"groups={len(d['groups'])}"}
    if (d.get("pad") or ["", ""])[0]:
        out.add("leading_whitespace")
    if d.get("eol") == "crlf":
        out.add("windows_line_ends")
    if any(sx["conn"] != sx["conn"].lower() for g in d["groups"] for sx in g["secs"]) and d["layout"] in ("TR_desc_S", "desc_STR"):
        out.add("capitalised_connector")
    if any(len(sx["lst"]["items"]) >= 17 for g in d["groups"] for sx in g["secs"]):
        out.add("long_section_list")
    for g in d["groups"]:
        out.add(f"tr={g['tr_sp']}")
        out.add(f"digits={len(str(g['twp']))}/{len(str(g['rge']))}")
        for s in g["secs"]:
            kinds = {it[0] for it in s["lst"]["items"]}
            out.add("sec=" + ("range" if "range" in kinds else ("list" if len(s["lst"]["items"]) > 1 else "single")))
            out.add(f"sep={s['sep']!r}")
            if "\n" in s["block"]:
                out.add("multiline_block")
    return sorted(out)


def render(d):
    return {"layout": d["layout"], "text": full_text(d), "expected": G.expected_tracts(d)}


def case(layout):
    # a Twp/Rge written without its directions (read with the default N / W) is unambiguous only where a section keyword or the
    # end of the text follows it: the two layouts in which the section comes first after / before it
    spellings = tuple(G.TR_SPELLINGS_ALL) if layout in ("TRS_desc", "S_desc_TR") else None
    def build(t):
        d, lead, trail, long_list, eol = t
        if long_list is not None:
            # one section group names a long list (a township of sections written out one by one)
            groups = [dict(g, secs=[dict(sx) for sx in g["secs"]]) for g in d["groups"]]
            groups[0]["secs"][0]["lst"] = long_list
            d = dict(d, groups=groups)
        return dict(d, pad=[lead, trail], eol=eol)

    long_lists = st.one_of(*([st.none()] * 11 + [L.long_rendered_list("sec", 99, (17, 20, 26))]))
    return st.tuples(G.description(layout=layout, spellings=spellings), st.sampled_from(LEAD_PAD), st.sampled_from(TRAIL_PAD), long_lists,
                     st.sampled_from(["lf"] * 5 + ["crlf"])).map(build)


def mk(layout):
    return Sub(layout, oracle, strategy=lambda tier, lay=layout: case(lay), validate=G.validate,
               nontrivial=nontrivial, classes=classes, render=render,
               n={"quick": 550, "thorough": 12000}, shards={"quick": 4, "thorough": 4},
               essential=("groups=2", "groups=3", "sec=range", "sec=list", "tr=words", "tr=abbr", "tr=dashed", "tr=lower",
                          "multiline_block", "leading_whitespace", "long_section_list", "windows_line_ends"))


SUBS = [mk(lay) for lay in G.LAYOUTS]
