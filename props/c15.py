"""C15 - results depend only on text and settings, not on what ran before."""
import json
import os
import subprocess
import sys
from concurrent.futures import ThreadPoolExecutor

from hypothesis import strategies as st

from vlib.core import Sub, Failure, HarnessError
from vlib import env

pytrs = env.import_pytrs()
from pytrs import PLSSDesc, Tract, TRS, MasterConfig, Config, TractList, TRSList, trs_to_dict, find_twprge, find_sec  # noqa: E402

ID = "C15"
RULE = (
    "Histories (model-based, <= 14 steps, one shrinkable value) of process-wide activity - parsing unrelated descriptions, "
    "creating objects under other MasterConfig defaults, setting and restoring MasterConfig, clearing / disabling / "
    "re-enabling / pre-warming the TRS cache (with near-miss and probe strings), mutating dicts and lists returned by "
    "trs_to_dict / to_dict / to_list / tracts_to_dict / list_trs / group_by / Config, creating objects whose parse is deferred to a later step, building several objects from one "
    "shared Config object and parsing them with keyword overrides, parsing a Tract as a dry run before parsing it for good, parsing one object 1..3 times with "
    "one-off keyword overrides (committed or not) and then plainly - interleaved with probe evaluations "
    "from a pool of 100+ probe calls (descriptions, tracts, TRS constructions and decompositions, find_twprge, with settings). "
    "Every probe result is compared with the result of the same probe in a fresh interpreter (subprocesses, 6 probes each) "
    "started under the MasterConfig defaults in force at that moment. A second sub-check parses any text of the C03 space under any settings through any entry "
    "point, with follow-up calls (dry runs with ocr_scrub / segment / copy_all, re-parses, filters, sorts, exports), and then requires a fixed set of canary "
    "parses to give what they gave before the first case ran in the process. Non-trivial: a probe evaluated after at least one "
    "cache-affecting and one MasterConfig-affecting step. Distinct = distinct history."
)
ASSUMPTIONS = [
    "The reference is the probe evaluated in a fresh interpreter together with at most five other probes.",
]

PAIRS = [("n", "w"), ("s", "w"), ("n", "e"), ("s", "e")]

DESCS = [
    ("T154N-R97W Sec 14: NE/4", ""), ("T154-R97 Sec 14: NE/4, Sec 15: Lots 1 - 3", "parse_qq"), ("T154N-R97 Sec 1: ALL", ""),
    ("T154-R97W Sec 2: N/2", "s"), ("NE/4 of Sec 14, T154-R97", "e"), ("Township 154, Range 97 Sec 14: NE, SW", "parse_qq,clean_qq"),
    ("T154N-R97W Sec 14: NE/4\nT155N-R97W Sec 1: W/2, less and except the wellbore", "segment"),
    ("That part of Sec 14 lying north of the river, T154-R97W", "sec_within"), ("T154N-R97W Sec 14 NE/4", "sec_colon_cautious"),
    ("Sec 100: NE/4 T154N-R97W", ""), ("no twprge here Sec 5: Lot 1", ""), ("TIS4N-R97W Sec 14: NE/4", "ocr_scrub"),
    ("T154-R97 Secs 3 - 1: Lots 5 - 1, Lot 2(40.1), Lot 2(39.9)", "parse_qq,n,e"), ("1N-3W Sec 1: NE/4, 11N-3W Sec 2: NW/4", ""),
    ("T154-R97 Sec 14: N/2NE/4NE/4", "parse_qq,qq_depth.1"), ("T154-R97 Sec 14: S/2NW/4NE/4", "parse_qq,break_halves,w"),
    ("TIS4N-R97W Sec 14: NE/4", ""), ("Township lS4 North, Range 97 West Sec 14: NE, SW", "parse_qq"), ("T154N-R97W Sec 14: NE, SW", "parse_qq"),
]
# (used by the object_history op only; kept apart so that the probe numbering stays as it is)
HISTORY_DESCS = DESCS + [("T154N-R97W Sec 14: NE/4\nT155N-R98W W/2 of Sec 22", "segment"),
                         ("T154N-R97W Sec 14: NE/4. T155N-R97W NW/4 of Section 16", "segment,parse_qq"),
                         ("That part of T154N-R97W Sec 14: NE/4, T155N-R97W Sec 1: ALL", "segment,sec_within")]
TRACTS = [("NE/4", ""), ("Lots 1, 1, N/2 of Lot 3", "parse_qq"), ("NE, SW", "parse_qq,clean_qq"), ("N/2SW/4, Lots 5 - 1", "parse_qq,qq_depth_min.3"),
          ("ALL", "parse_qq,qq_depth.1"), ("N/2 of Lot 1", "parse_qq,suppress_lot_divs")]
TRS_STRS = ["154n97w14", "154n97w15", "154n97w1", "1154n97w14", "154nXXXz14", "XXXzXXXzXX", "", "___z___z__", "154N97W14", "1s1e01", "154n97w",
            "154n97w100", "0n0w00", "154n97wXX", "154s97e14", "15n97w14", "154n9w14"]
FROM = [(154, 97, 14), ("154", "97", "4"), ("154n", "97w", 14), (154, "97e", "14"), (None, 97, 14), (154, 97, None), ("XXXz", 97, 14), (1, 2, 3),
        ("154s", 97, 14), (154, "97", 0)]

PROBES = []
for text, cfg in DESCS:
    PROBES.append(["plss", text, cfg])
for desc, cfg in TRACTS:
    PROBES.append(["tract", desc, cfg])
for s in TRS_STRS:
    PROBES.append(["trs", s])
    PROBES.append(["trs_to_dict", s])
    PROBES.append(["tract_trs", s])
for a in FROM:
    PROBES.append(["from_twprgesec", list(a)])
    PROBES.append(["tract_from_twprgesec", list(a)])
for text, _ in DESCS[:7] + DESCS[-3:]:
    PROBES.append(["find_twprge", text])
# (appended last so that the indices used by committed replay files keep their meaning)
TRACTS2 = [("NE, SW and Lot 1", "parse_qq"), ("N/2NE/4, NE/4NE/4", "parse_qq"), ("Lots 1 - 3, N/2 of Lot 2, Lot 2", "parse_qq"),
           ("Northeast Quarter, NE, Lots 4 - 2", "parse_qq,qq_depth_min.1")]
TRACT_PROBE = {k: len(DESCS) + k for k in range(len(TRACTS))}
for desc, cfg in TRACTS2:
    TRACT_PROBE[len(TRACT_PROBE)] = len(PROBES)
    PROBES.append(["tract", desc, cfg])
ALL_TRACTS = TRACTS + TRACTS2


def trs_attrs(t):
    return {k: getattr(t, k) for k in ("trs", "twp", "rge", "sec", "twp_num", "rge_num", "sec_num", "twp_ns", "rge_ew", "twprge",
                                       "twp_undef", "rge_undef", "sec_undef")} | {"err": bool(t.is_error()), "undef": bool(t.is_undef()), "pretty": t.pretty_twprge()}


def evaluate(p, cfg=None):
    kind = p[0]
    if kind == "plss":
        d = PLSSDesc(p[1], config=p[2] if cfg is None else cfg)
        return {"pp": d.pp_desc, "layout": d.current_layout, "flags": sorted(map(str, d.flags)),
                "tracts": [[t.trs, t.desc, list(t.lots), list(t.qqs), sorted(map(str, t.flags)), t.twp_num, t.rge_ew] for t in d.tracts]}
    if kind == "tract":
        t = Tract(p[1], trs="154n97w14", config=p[2])
        return {"pp": t.pp_desc, "lots": list(t.lots), "qqs": list(t.qqs), "acres": dict(t.lot_acres), "flags": sorted(map(str, t.flags)), "trs": t.trs}
    if kind == "trs":
        return trs_attrs(TRS(p[1]))
    if kind == "trs_to_dict":
        return {k: v for k, v in trs_to_dict(p[1]).items()}
    if kind == "tract_trs":
        t = Tract("NE/4", trs=p[1])
        return {k: getattr(t, k) for k in ("trs", "twp", "rge", "sec", "twp_num", "rge_num", "sec_num", "twp_ns", "rge_ew", "twprge")}
    if kind == "from_twprgesec":
        return trs_attrs(TRS.from_twprgesec(*p[1]))
    if kind == "tract_from_twprgesec":
        t = Tract.from_twprgesec("NE/4", *p[1])
        return {"trs": t.trs, "twp": t.twp, "rge": t.rge, "sec": t.sec}
    if kind == "find_twprge":
        return {"plain": find_twprge(p[1]), "pre": find_twprge(p[1], preprocess=True), "sec": find_sec(p[1])}
    raise ValueError(kind)


def _norm(x):
    return json.loads(json.dumps(x, sort_keys=True))


# ---------------------------------------------------------------------------
# reference from fresh interpreters

REFERENCE = {}
CHUNK = 6


def _ref_worker(args):
    ns, ew, idxs = args
    cmd = [sys.executable, "-B", os.path.abspath(__file__), "--reference", ns, ew, ",".join(map(str, idxs))]
    envv = dict(os.environ, PYTHONHASHSEED="0", PYTHONPATH=env.VERIF_ROOT)
    p = subprocess.run(cmd, capture_output=True, text=True, env=envv, cwd=env.VERIF_ROOT)
    if p.returncode != 0:
        raise HarnessError(f"reference subprocess failed: {p.stderr[-800:]}")
    return ns, ew, json.loads(p.stdout)


def prepare(tier):
    if REFERENCE:
        return
    jobs = []
    for ns, ew in PAIRS:
        for i in range(0, len(PROBES), CHUNK):
            jobs.append((ns, ew, list(range(i, min(i + CHUNK, len(PROBES))))))
    with ThreadPoolExecutor(16) as ex:
        for ns, ew, res in ex.map(_ref_worker, jobs):
            for k, v in res.items():
                REFERENCE[(ns, ew, int(k))] = v


def _reference_main(argv):
    ns, ew, idxs = argv[0], argv[1], [int(x) for x in argv[2].split(",")]
    MasterConfig.default_ns, MasterConfig.default_ew = ns, ew
    out = {}
    for i in idxs:
        try:
            out[i] = _norm(evaluate(PROBES[i]))
        except Exception as exc:  # noqa
            out[i] = {"EXC": f"{type(exc).__name__}: {exc}"}
    print(json.dumps(out))


# ---------------------------------------------------------------------------
# histories

SIDE = ["T1N-R1E Sec 1: Lots 1 - 3", "154-97 Sec 14: NE/4", "T154-R97 Sec 14: SW/4", "garbage text", "T154N-R97W Sec 14: NE/4",
        "Sec 14: NE, T154-R97", "T2S-R3E Sec 100: X", "Township 154, Range 97 Sec 14: ALL",
        "Stray words before T154N-R97W Sec 14: NE/4 and some after\nT1N-R1E", "NE/4 of Sec 1, T1N-R1E, trailing words here",
        "TIS4N-R97W Sec 1: ALL"]
NEAR = ["154n97w1", "154n97w144", "54n97w14", "154n97w14 ", "154N97W14", "154n97e14", "154s97w14", "154n97w", "154n97", "x154n97w14", "154n097w14"]

OV_PLSS = [{"sec_colon_required": True}, {"segment": True}, {"layout": "copy_all"}, {"ocr_scrub": True}, {"clean_qq": True, "parse_qq": True},
           {"default_ns": "s", "default_ew": "e"}, {"sec_within": True}, {"qq_depth": 1, "parse_qq": True}]
OV_TRACT = [{"clean_qq": True}, {"qq_depth": 1}, {"suppress_lot_divs": True}, {"break_halves": True, "qq_depth_min": 1}]

OP = st.one_of(
    st.tuples(st.just("probe"), st.integers(0, len(PROBES) - 1)),
    st.tuples(st.just("probe"), st.integers(0, len(PROBES) - 1)),
    st.tuples(st.just("side_parse"), st.integers(0, len(SIDE) - 1), st.sampled_from(["", "parse_qq", "s,e", "segment", "ocr_scrub"])),
    st.tuples(st.just("under_defaults"), st.sampled_from("ns"), st.sampled_from("ew"), st.integers(0, len(SIDE) - 1)),
    st.tuples(st.just("set_master"), st.sampled_from("ns"), st.sampled_from("ew")),
    st.tuples(st.just("restore_master")),
    st.tuples(st.just("clear_cache")),
    st.tuples(st.just("cache_off")),
    st.tuples(st.just("cache_on")),
    st.tuples(st.just("prewarm"), st.integers(0, 40)),
    st.tuples(st.just("mutate_trs_dict"), st.integers(0, len(TRS_STRS) - 1)),
    st.tuples(st.just("mutate_outputs"), st.integers(0, len(DESCS) - 1)),
    st.tuples(st.just("mutate_config"), st.integers(0, len(DESCS) - 1)),
    st.tuples(st.just("create_deferred"), st.integers(0, len(DESCS) - 1)),
    st.tuples(st.just("parse_deferred")),
    st.tuples(st.just("side_tract"), st.integers(0, len(TRACTS) - 1), st.sampled_from(["", "clean_qq", "parse_qq,clean_qq"])),
    # one Config object per description, shared by every object built for it in this history
    st.tuples(st.just("use_shared_config"), st.integers(0, len(DESCS) - 1), st.booleans(), st.sampled_from(["plss", "tract"])),
    st.tuples(st.just("probe_shared_config"), st.integers(0, len(DESCS) - 1)),
    st.tuples(st.just("shared_config_attribute_changed"), st.integers(0, 5), st.integers(0, 3), st.booleans()),
    # one object parsed several times with one-off keyword overrides (committed or not), then plainly: keywords do not outlive their call
    st.tuples(st.just("object_history"), st.sampled_from(["plss", "tract"]), st.integers(0, 40),
              st.lists(st.tuples(st.booleans(), st.integers(0, 7)), min_size=1, max_size=3)),
    # the layout guessed for a text under a restricted list of candidates is nobody's business afterwards
    st.tuples(st.just("deduce_layout_candidates"), st.integers(0, len(DESCS) - 1), st.integers(0, 5)),
    # a Tract that is first parsed as a dry run and then for good
    st.tuples(st.just("tract_dry_run_first"), st.integers(0, len(TRACTS) - 1), st.integers(1, 2)),
).map(list)
CASE = st.fixed_dictionaries({"ops": st.lists(OP, min_size=2, max_size=14), "final": st.lists(st.integers(0, len(PROBES) - 1), min_size=1, max_size=3)})

_last = {}


def _poison(obj):
    """Mutate whatever the library returned."""
    if isinstance(obj, dict):
        for k in list(obj):
            if isinstance(obj[k], (list, dict)):
                _poison(obj[k])
            else:
                obj[k] = "POISON"
        obj["extra"] = "POISON"
    elif isinstance(obj, list):
        for x in obj:
            if isinstance(x, (list, dict)):
                _poison(x)
        obj.append("POISON")


def oracle(c):
    prepare("quick")
    fails = []
    old_master = (MasterConfig.default_ns, MasterConfig.default_ew)
    old_cache = TRS._USE_CACHE
    cache_ops = master_ops = 0
    nontrivial = False
    kinds = set()

    def check(j, step):
        nonlocal nontrivial
        ns, ew = MasterConfig.default_ns, MasterConfig.default_ew
        want = REFERENCE[(ns, ew, j)]
        try:
            got = _norm(evaluate(PROBES[j]))
        except Exception as exc:  # noqa
            got = {"EXC": f"{type(exc).__name__}: {exc}"}
        if cache_ops and master_ops:
            nontrivial = True
        # independent of the reference: a direction-less construction takes exactly the defaults now in force
        if PROBES[j][0] in ("from_twprgesec", "tract_from_twprgesec") and isinstance(got, dict) and "EXC" not in got:
            twp, rge, _ = PROBES[j][1]
            exp_twp = f"{int(twp)}{ns}" if isinstance(twp, int) or (isinstance(twp, str) and twp.isdigit()) else None
            exp_rge = f"{int(rge)}{ew}" if isinstance(rge, int) or (isinstance(rge, str) and rge.isdigit()) else None
            if (exp_twp and got.get("twp") != exp_twp) or (exp_rge and got.get("rge") != exp_rge):
                fails.append(Failure(f"defaults_in_force_ignored:{PROBES[j][0]}",
                                     f"step {step}: {PROBES[j]} under MasterConfig {ns}{ew} gives twp={got.get('twp')} rge={got.get('rge')}, expected {exp_twp} {exp_rge}",
                                     probe=PROBES[j], ops=c["ops"][:step + 1]))
                return False
        if got != want:
            field = next((k for k in want if isinstance(got, dict) and got.get(k) != want[k]), "?") if isinstance(want, dict) else "?"
            fails.append(Failure(f"history_dependence:{PROBES[j][0]}:{field}",
                                 f"step {step}: probe {PROBES[j]} under MasterConfig {ns}{ew} gives {json.dumps(got)[:300]}, a fresh interpreter gives {json.dumps(want)[:300]}",
                                 probe=PROBES[j], ops=c["ops"][:step + 1]))
            return False
        return True

    deferred = []       # objects created earlier in the history and only parsed later
    shared = {}         # description index -> the one Config object used for it throughout this history

    def check_deferred(step):
        nonlocal nontrivial
        j, d, t = deferred.pop(0)
        ns, ew = MasterConfig.default_ns, MasterConfig.default_ew
        want = REFERENCE[(ns, ew, j)]
        d.parse()
        got = _norm({"pp": d.pp_desc, "layout": d.current_layout, "flags": sorted(map(str, d.flags)),
                     "tracts": [[x.trs, x.desc, list(x.lots), list(x.qqs), sorted(map(str, x.flags)), x.twp_num, x.rge_ew] for x in d.tracts]})
        if master_ops:
            nontrivial = True
        if got != want:
            field = next((k for k in want if got.get(k) != want[k]), "?")
            fails.append(Failure(f"history_dependence:deferred_plss:{field}",
                                 f"step {step}: {PROBES[j]} created earlier and parsed now under MasterConfig {ns}{ew} gives {json.dumps(got)[:300]}, a fresh interpreter gives {json.dumps(want)[:300]}",
                                 probe=PROBES[j], ops=c["ops"][:step + 1]))
            return False
        t.set_twprgesec(154, 97, 14)
        if t.trs != f"154{ns}97{ew}14":
            fails.append(Failure("defaults_in_force_ignored:deferred_tract", f"step {step}: a Tract created earlier, set_twprgesec(154, 97, 14) under MasterConfig {ns}{ew} gives {t.trs}",
                                 ops=c["ops"][:step + 1]))
            return False
        return True

    try:
        TRS._clear_cache()
        for i, op in enumerate(c["ops"]):
            name = op[0]
            kinds.add(name)
            if name == "probe":
                if not check(op[1], i):
                    break
            elif name == "create_deferred":
                j = op[1]            # PROBES[j] is the plss probe of DESCS[j]
                text, cfg = DESCS[j]
                deferred.append((j, PLSSDesc(text, config=cfg, wait_to_parse=True), Tract("NE/4")))
            elif name == "parse_deferred":
                if deferred and not check_deferred(i):
                    break
            elif name == "side_tract":
                desc, _ = TRACTS[op[1]]
                Tract(desc, config=op[2]).parse()
            elif name == "use_shared_config":
                j = op[1]
                text, cfg = DESCS[j]
                cobj = shared.setdefault(j, Config(cfg))
                if op[3] == "plss":
                    u = PLSSDesc(text, config=cobj, wait_to_parse=True)
                    u.parse(parse_qq=True, clean_qq=True, qq_depth=1, break_halves=True, commit=op[2])
                    u.parse_tracts(qq_depth_min=1, suppress_lot_divs=True)
                else:
                    u = Tract("N/2NE/4, NE, Lots 1 - 3", config=cobj)
                    u.parse(clean_qq=True, qq_depth=1, break_halves=True, commit=op[2])
            elif name == "probe_shared_config":
                j = op[1]
                text, cfg = DESCS[j]
                cobj = shared.setdefault(j, Config(cfg))
                ns, ew = MasterConfig.default_ns, MasterConfig.default_ew
                want = REFERENCE[(ns, ew, j)]
                got = _norm(evaluate(PROBES[j], cfg=cobj))
                if got != want:
                    field = next((k for k in want if got.get(k) != want[k]), "?")
                    fails.append(Failure(f"history_dependence:shared_config:{field}",
                                         f"step {i}: {PROBES[j]} built from the Config object other objects of this history were built from gives {json.dumps(got)[:300]}, a fresh interpreter (config text) gives {json.dumps(want)[:300]}",
                                         probe=PROBES[j], ops=c["ops"][:i + 1]))
                    break
            elif name == "object_history":
                ns, ew = MasterConfig.default_ns, MasterConfig.default_ew
                if op[1] == "plss":
                    j = op[2] % len(HISTORY_DESCS)
                    text, cfg = HISTORY_DESCS[j]
                    obj = PLSSDesc(text, config=cfg)
                    label = PROBES[j] if j < len(DESCS) else ["plss", text, cfg]
                    bad_step = None
                    for commit, k in op[3]:
                        ov = OV_PLSS[k % len(OV_PLSS)]
                        ret = obj.parse(commit=commit, **ov)
                        # what this parse gives does not depend on the parses this object went through before: a new object, same call
                        twin = PLSSDesc(text, config=cfg, wait_to_parse=True)
                        want_ret = twin.parse(commit=commit, **ov)
                        a = [[x.trs, x.desc, list(x.lots), list(x.qqs)] for x in ret]
                        b = [[x.trs, x.desc, list(x.lots), list(x.qqs)] for x in want_ret]
                        if a != b:
                            bad_step = (ov, commit, a, b)
                            break
                    if bad_step:
                        fails.append(Failure("history_dependence:same_object_plss:intermediate",
                                             f"step {i}: {label} parsed before, then parse(commit={bad_step[1]}, {bad_step[0]}) returns {json.dumps(bad_step[2])[:300]}, a new object given the same call returns {json.dumps(bad_step[3])[:300]}",
                                             probe=label, ops=c["ops"][:i + 1]))
                        break
                    obj.parse()
                    if j < len(DESCS):
                        want = REFERENCE[(ns, ew, j)]
                    else:
                        new = PLSSDesc(text, config=cfg)
                        want = _norm({"pp": new.pp_desc, "layout": new.current_layout, "flags": sorted(map(str, new.flags)),
                                      "tracts": [[x.trs, x.desc, list(x.lots), list(x.qqs), sorted(map(str, x.flags)), x.twp_num, x.rge_ew] for x in new.tracts]})
                    got = _norm({"pp": obj.pp_desc, "layout": obj.current_layout, "flags": sorted(map(str, obj.flags)),
                                 "tracts": [[x.trs, x.desc, list(x.lots), list(x.qqs), sorted(map(str, x.flags)), x.twp_num, x.rge_ew] for x in obj.tracts]})
                    jj = j
                else:
                    k0 = op[2] % len(ALL_TRACTS)
                    desc, cfg = ALL_TRACTS[k0]
                    if "parse_qq" not in cfg.split(","):
                        continue
                    jj = TRACT_PROBE[k0]
                    label = PROBES[jj]
                    obj = Tract(desc, trs="154n97w14", config=cfg)
                    for commit, k in op[3]:
                        obj.parse(commit=commit, **OV_TRACT[k % len(OV_TRACT)])
                    obj.parse()
                    want = REFERENCE[(ns, ew, jj)]
                    got = _norm({"pp": obj.pp_desc, "lots": list(obj.lots), "qqs": list(obj.qqs), "acres": dict(obj.lot_acres), "flags": sorted(map(str, obj.flags)), "trs": obj.trs})
                if got != want:
                    field = next((kk for kk in want if got.get(kk) != want[kk]), "?")
                    steps = [("parse" if cm else "dry run") + f" {(OV_PLSS if op[1] == 'plss' else OV_TRACT)[k % len(OV_PLSS if op[1] == 'plss' else OV_TRACT)]}" for cm, k in op[3]]
                    fails.append(Failure(f"history_dependence:same_object_{op[1]}:{field}",
                                         f"step {i}: {label} after {steps} and a plain parse() gives {json.dumps(got)[:300]}, a fresh interpreter gives {json.dumps(want)[:300]}",
                                         probe=label, ops=c["ops"][:i + 1]))
                    break
            elif name == "deduce_layout_candidates":
                import itertools
                from pytrs.parser import deduce_layout as _deduce
                text, cfg = DESCS[op[1]]
                pairs = list(itertools.combinations(["TRS_desc", "desc_STR", "S_desc_TR", "TR_desc_S"], 2))
                cand = list(pairs[op[2] % len(pairs)])
                w = PLSSDesc(text, config=cfg, wait_to_parse=True)
                w.deduce_layout(candidates=cand)
                _deduce(w.pp_desc, cand)
                _deduce(text, cand)
            elif name == "tract_dry_run_first":
                k = op[1]
                desc, cfg = TRACTS[k]
                jt = len(DESCS) + k          # index of the corresponding tract probe
                rest = ",".join(x for x in cfg.split(",") if x and x != "parse_qq")
                t = Tract(desc, trs="154n97w14", config=rest)
                for _ in range(op[2]):
                    t.parse(commit=False)
                t.parse()
                if "parse_qq" in cfg.split(","):
                    ns, ew = MasterConfig.default_ns, MasterConfig.default_ew
                    want = REFERENCE[(ns, ew, jt)]
                    got = _norm({"pp": t.pp_desc, "lots": list(t.lots), "qqs": list(t.qqs), "acres": dict(t.lot_acres), "flags": sorted(map(str, t.flags)), "trs": t.trs})
                    if got != want:
                        field = next((kk for kk in want if got.get(kk) != want[kk]), "?")
                        fails.append(Failure(f"history_dependence:tract_after_dry_run:{field}",
                                             f"step {i}: Tract({desc!r}, config={rest!r}) parsed as a dry run and then for good gives {json.dumps(got)[:300]}, parsed once in a fresh interpreter {json.dumps(want)[:300]}",
                                             probe=PROBES[jt], ops=c["ops"][:i + 1]))
                        break
            elif name == "side_parse":
                d = PLSSDesc(SIDE[op[1]], config=op[2])
                d.parse_tracts()
            elif name == "under_defaults":
                keep = (MasterConfig.default_ns, MasterConfig.default_ew)
                MasterConfig.default_ns, MasterConfig.default_ew = op[1], op[2]
                master_ops += 1
                try:
                    PLSSDesc(SIDE[op[3]], parse_qq=True)
                    Tract.from_twprgesec("NE/4", 154, 97, 14)
                    TRS.from_twprgesec(154, 97, 14)
                    find_twprge(SIDE[op[3]], preprocess=True)
                finally:
                    MasterConfig.default_ns, MasterConfig.default_ew = keep
            elif name == "set_master":
                MasterConfig.default_ns, MasterConfig.default_ew = op[1], op[2]
                master_ops += 1
            elif name == "restore_master":
                MasterConfig.default_ns, MasterConfig.default_ew = old_master
                master_ops += 1
            elif name == "clear_cache":
                TRS._clear_cache()
                cache_ops += 1
            elif name == "cache_off":
                TRS._USE_CACHE = False
                cache_ops += 1
            elif name == "cache_on":
                TRS._USE_CACHE = True
                cache_ops += 1
            elif name == "prewarm":
                for k, s in enumerate(NEAR + TRS_STRS):
                    if (k + op[1]) % 3:
                        TRS(s)
                        Tract("x", trs=s)
                cache_ops += 1
            elif name == "mutate_trs_dict":
                s = TRS_STRS[op[1]]
                TRS(s)
                _poison(trs_to_dict(s))
                _poison(TRS.trs_to_dict(TRS(s)))
                cache_ops += 1
            elif name == "mutate_outputs":
                text, cfg = DESCS[op[1]]
                d = PLSSDesc(text, config=cfg)
                for out in (d.tracts_to_dict("trs", "desc", "lots", "qqs", "w_flags", "lot_acres", "flag_lines"),
                            d.tracts_to_list("trs", "desc", "lots", "qqs"), d.list_trs(), list(d.group_by("twprge").values()),
                            [t.to_dict("trs", "lots", "qqs", "lot_acres") for t in d.tracts], TRSList(d).to_strings(),
                            d.tracts.to_standard_list()):
                    _poison(out)
                # the object the mutated containers came from, parsed again with the same text and settings: as a new object
                d.parse_tracts()
                again = [[t.trs, t.desc, list(t.lots), list(t.qqs), dict(t.lot_acres), list(t.aliquots_whole)] for t in d.tracts]
                new = PLSSDesc(text, config=cfg)
                new.parse_tracts()
                want_again = [[t.trs, t.desc, list(t.lots), list(t.qqs), dict(t.lot_acres), list(t.aliquots_whole)] for t in new.tracts]
                if again != want_again:
                    fails.append(Failure("history_dependence:reparse_after_outputs_mutated", f"step {i}: {text!r} [{cfg}]: after the caller changed the containers its conversion methods returned, "
                                         f"parse_tracts() on the same object gives {json.dumps(again)[:300]}, a new object gives {json.dumps(want_again)[:300]}", ops=c["ops"][:i + 1]))
                    break
            elif name == "shared_config_attribute_changed":
                # one Config object: used for a parse, then a setting of it is set directly, then used again - as a new Config that says the same
                attr, val, as_text = [("suppress_lot_divs", True, "suppress_lot_divs"), ("clean_qq", True, "clean_qq"), ("break_halves", True, "break_halves"),
                                      ("qq_depth_min", 1, "qq_depth_min.1"), ("qq_depth", 3, "qq_depth.3"), ("suppress_lot_divs", False, "suppress_lot_divs.False")][op[1] % 6]
                base = ["", "qq_depth_max.3", "suppress_lot_divs", "parse_qq"][op[2] % 4]
                body = "N/2 of Lot 1, NE, E/2W/2"
                cobj = Config(base)
                if op[3]:
                    str(cobj)
                    cobj.decompile_to_text()
                PLSSDesc("T154N-R97W Sec 14: " + body, config=cobj, parse_qq=True)
                setattr(cobj, attr, val)
                same = Config(",".join(x for x in (base, as_text) if x))
                for how, mk in (("PLSSDesc", lambda cf: PLSSDesc("T154N-R97W Sec 14: " + body, config=cf, parse_qq=True).tracts[0]), ("Tract", lambda cf: Tract(body, config=cf, parse_qq=True)),
                                ("Config(copy)", lambda cf: Tract(body, config=Config(cf), parse_qq=True))):
                    g, w = mk(cobj), mk(same)
                    if (list(g.lots), list(g.qqs)) != (list(w.lots), list(w.qqs)):
                        fails.append(Failure("history_dependence:config_object_used_before_attribute_set", f"step {i}: Config({base!r}) used for a parse, then .{attr} = {val!r}: a {how} built from it gives "
                                             f"{g.lots} {g.qqs}, one built from Config({same.decompile_to_text()!r}) gives {w.lots} {w.qqs}", ops=c["ops"][:i + 1]))
                        break
                if fails:
                    break
            elif name == "mutate_config":
                text, cfg = DESCS[op[1]]
                cobj = Config(cfg)
                d = PLSSDesc(text, config=cobj)
                cobj.clean_qq = True
                cobj.default_ns = "s"
                cobj.layout = "copy_all"
                got = d.config
                got.segment = True
        # restore, then the original behaviour must be back
        MasterConfig.default_ns, MasterConfig.default_ew = old_master
        if not fails:
            for j in c["final"]:
                if not check(j, len(c["ops"])):
                    break
        while deferred and not fails:
            if not check_deferred(len(c["ops"])):
                break
    finally:
        MasterConfig.default_ns, MasterConfig.default_ew = old_master
        TRS._USE_CACHE = old_cache
        TRS._clear_cache()
    _last["nt"] = nontrivial
    _last["kinds"] = kinds
    return fails


def classes(c):
    return [f"op={k}" for k in sorted(_last.get("kinds", ()))] + (["nontrivial"] if _last.get("nt") else [])


# any parse of any text under any settings, then the canaries -------------------------------------------------------------
from vlib import parsing as _parsing, configs as _configs, canary as _canary  # noqa: E402

ANY_CASE = st.fixed_dictionaries({**_parsing.CASE_FIELDS,
                                  "follow": st.lists(st.sampled_from(["dry_run", "parse", "parse_tracts", "parse_tracts_kw", "tract_dry_run", "copy_all", "preprocess"]), max_size=3)})


def oracle_any(c):
    """Whatever was parsed, and however: a fixed set of unrelated parses gives afterwards what it gave before anything ran."""
    _canary.arm()
    try:
        d, tracts = _parsing.make_plss(c, parse_qq=True)
        for step in c["follow"]:
            if step == "dry_run":
                d.parse(commit=False, ocr_scrub=True, segment=True)
            elif step == "parse":
                d.parse()
            elif step == "parse_tracts":
                d.parse_tracts()
            elif step == "parse_tracts_kw":
                d.parse_tracts(clean_qq=True, qq_depth_min=1, break_halves=True)
            elif step == "tract_dry_run":
                for t in d.tracts:
                    t.parse(commit=False, clean_qq=True)
            elif step == "copy_all":
                d.parse(layout="copy_all", commit=False)
            elif step == "preprocess":
                d.preprocess(ocr_scrub=True, commit=False)
        d.tracts.filter_errors(sec=False)
        d.tracts.custom_sort("s.rev,t,r")
        d.tracts_to_dict("trs", "lots", "qqs")
    except Exception as exc:  # whether a parse may raise is C03's question; what it leaves behind is this property's
        from vlib.core import exception_failure
        if exception_failure(exc, "any") is None:
            raise
    ch = _canary.changed()
    _last["nt"] = True
    _last["kinds"] = set(c["follow"])
    if ch:
        return [Failure("any_parse_left_state_behind", f"after parsing {c['text']['text']!r:.200} [{_configs.to_text(c['cfg'], c['style'])}] via {c['entry']} + {c['follow']}: {ch}",
                        **_parsing.render(c))]
    return []


SUBS = [
    Sub("histories", oracle, strategy=lambda tier: CASE, nontrivial=lambda c: bool(_last.get("nt")), classes=classes, render=lambda c: c,
        n={"quick": 1500, "thorough": 12000}, shards={"quick": 8, "thorough": 16},
        essential=("op=probe", "op=set_master", "op=clear_cache", "op=cache_off", "op=prewarm", "op=mutate_trs_dict", "op=mutate_outputs",
                   "op=under_defaults", "op=create_deferred", "op=parse_deferred", "op=use_shared_config", "op=probe_shared_config", "op=shared_config_attribute_changed", "op=tract_dry_run_first", "op=object_history", "op=deduce_layout_candidates", "nontrivial")),
    Sub("after_any_parse", oracle_any, strategy=lambda tier: ANY_CASE, nontrivial=lambda c: bool(c["cfg"]) or bool(c["follow"]),
        classes=lambda c: _parsing.text_classes(c) + [f"follow={f}" for f in c["follow"]], render=lambda c: dict(_parsing.render(c), follow=c["follow"]),
        n={"quick": 700, "thorough": 8000}, shards={"quick": 6, "thorough": 16}, text_keys=("text",),
        essential=("gen=soup", "gen=damaged", "cfg=segment", "cfg=ocr_scrub", "follow=dry_run", "follow=copy_all")),
]

if __name__ == "__main__" and len(sys.argv) > 1 and sys.argv[1] == "--reference":
    _reference_main(sys.argv[2:])
