"""C03 - parsing is total: any text, any valid configuration, never an exception."""
import re

from hypothesis import strategies as st

from vlib.core import Sub, Failure, exception_failure
from vlib import env, configs, soup, parsing

pytrs = env.import_pytrs()
from pytrs import PLSSDesc, Tract, Config, MasterConfig, find_twprge, find_sec  # noqa: E402
from pytrs.parser.config import ConfigError, DefaultNSError, DefaultEWError  # noqa: E402

ID = "C03"
RULE = (
    "Strings from four generators (token soup over the PLSS vocabulary incl. Twp/Rge fragments; arbitrary text over an "
    "alphabet with unicode, fraction glyphs and control whitespace; rendered descriptions damaged by token deletion / "
    "duplication / swap / truncation / colon removal / stray insertions; well-formed descriptions) x every combination of "
    "the 15 parse-relevant settings (wait_to_parse excluded) rendered as config text in varying syntax x entry points "
    "{PLSSDesc init with text config / Config object, parse(**kw) committed and not, config assignment then parse, "
    "Tract init, Tract.parse(**kw), preprocess, find_twprge, find_sec}, each followed by 0..3 further calls on the same object "
    "(dry-run parse, parse, parse_tracts with and without keywords, dry-run parse of every tract). A second sub-check feeds invalid arguments and "
    "requires exactly the documented exception class. A volume sub-check creates 12 000 (thorough: 40 000) descriptions / tracts / TRS with pairwise "
    "different Twp/Rge/Sec in one process. Non-trivial: text has a Twp/Rge-like and a section-like token, or a "
    "non-default configuration. Distinct = distinct (text, config text, entry)."
)
ASSUMPTIONS = [
    "Depth settings stay within 1..4 with qq_depth_max >= qq_depth_min (documented as unsupported otherwise).",
    "Inputs of the C16 slow families are steered away from by construction (counted), so a timing finding is not double-reported here.",
]

TR_LIKE = re.compile(r"\d\s*[NSns]", re.I)
SEC_LIKE = re.compile(r"sec|§", re.I)


def nontrivial(c):
    t = c["text"]["text"]
    return bool(TR_LIKE.search(t) and SEC_LIKE.search(t)) or bool(c["cfg"])


def oracle_plss(c):
    fails = []
    d, tracts = parsing.make_plss(c, parse_qq=True)
    if len(tracts) < 1:
        fails.append(Failure("no_tract", f"{c['entry']}: PLSSDesc({c['text']['text']!r}, {configs.to_text(c['cfg'], c['style'])!r}) produced no tract",
                             **parsing.render(c)))
    # auxiliary public entry points on the same text
    d.preprocess()
    find_twprge(c["text"]["text"], preprocess=True, ocr_scrub=bool(c["cfg"].get("ocr_scrub")))
    find_sec(c["text"]["text"])
    d.pretty_desc()
    d.quick_desc()
    # the same object may be parsed again, as a dry run or for good, and its tracts re-parsed: none of that may raise either
    for step in c.get("follow", ()):
        if step == "dry_run":
            d.parse(commit=False)
        elif step == "parse":
            d.parse()
        elif step == "parse_tracts":
            d.parse_tracts()
        elif step == "parse_tracts_kw":
            d.parse_tracts(clean_qq=True, qq_depth_min=1)
        elif step == "tract_dry_run":
            for t in d.tracts:
                t.parse(commit=False)
        if len(d.tracts) < 1:
            fails.append(Failure("no_tract_after_follow_up", f"after {step}: no tract left for {c['text']['text']!r}", **parsing.render(c)))
            break
    return fails


FOLLOW = st.lists(st.sampled_from(["dry_run", "parse", "parse_tracts", "parse_tracts_kw", "tract_dry_run"]), max_size=3)
PLSS_CASE = st.fixed_dictionaries({**parsing.CASE_FIELDS, "follow": FOLLOW})


TRACT_CASE = st.fixed_dictionaries({
    "text": soup.ANY_TEXT,
    "cfg": configs.config_values(exclude=("wait_to_parse", "layout", "segment", "sec_within", "sec_colon_required", "sec_colon_cautious")),
    "style": configs.STYLE,
    "entry": st.sampled_from(["init", "parse_kw", "parse_kw_nocommit", "init_unparsed"]),
    "follow": st.lists(st.sampled_from(["dry_run", "parse", "parse_kw"]), max_size=3),
})


def oracle_tract(c):
    text = c["text"]["text"]
    ctext = configs.to_text(c["cfg"], c["style"])
    if c["entry"] == "init":
        t = Tract(text, trs="154n97w14", config=ctext, parse_qq=True)
    elif c["entry"] == "init_unparsed":
        t = Tract(text, config=ctext)
        t.preprocess(commit=True)
        t.parse()
    else:
        t = Tract(text)
        kw = configs.to_kwargs(c["cfg"], parsing.TRACT_PARSE_KW)
        t.parse(commit=(c["entry"] == "parse_kw"), **kw)
    t.quick_desc()
    t.to_dict("trs", "desc", "lots", "qqs", "ilots", "lots_qqs")
    for step in c.get("follow", ()):
        if step == "dry_run":
            t.parse(commit=False)
        elif step == "parse":
            t.parse()
        else:
            t.parse(**configs.to_kwargs(c["cfg"], parsing.TRACT_PARSE_KW))
    t.to_dict("trs", "desc", "lots", "qqs", "ilots", "lots_qqs", "w_flags", "e_flags")
    return []


def tract_classes(c):
    return [f"gen={c['text']['kind']}", f"entry={c['entry']}"]


# ---------------------------------------------------------------------------
# invalid arguments -> documented exception types

BAD = [
    # (label, thunk builder, acceptable exception classes, must_raise)
    ("plss_text_int", lambda tx: PLSSDesc(5), (TypeError,), True),
    ("plss_text_none", lambda tx: PLSSDesc(None), (TypeError,), True),
    ("plss_text_bytes", lambda tx: PLSSDesc(tx.encode("utf-8")), (TypeError,), True),
    ("plss_text_list", lambda tx: PLSSDesc([tx]), (TypeError,), True),
    ("plss_config_int", lambda tx: PLSSDesc(tx, config=5), (ConfigError,), True),
    ("plss_config_list", lambda tx: PLSSDesc(tx, config=["n"]), (ConfigError,), True),
    ("tract_config_int", lambda tx: Tract(tx, config=5), (ConfigError,), True),
    ("tract_trs_int", lambda tx: Tract(tx, trs=15497), (TypeError,), True),
    ("config_int", lambda tx: Config(5), (ConfigError,), True),
    ("plss_unknown_setting", lambda tx: PLSSDesc(tx, config="n,foo"), (ValueError,), True),
    ("plss_unknown_setting_val", lambda tx: PLSSDesc(tx, config="parse_qq,clean_q.True"), (ValueError,), True),
    ("tract_unknown_setting", lambda tx: Tract(tx, config="cleanqq"), (ValueError,), True),
    ("config_bad_ns", lambda tx: PLSSDesc(tx, config="default_ns.x"), (DefaultNSError,), True),
    ("config_bad_ew", lambda tx: PLSSDesc(tx, config="default_ew=q"), (DefaultEWError,), True),
    ("config_dict_bad_ns", lambda tx: Config.from_dict({"default_ns": "x"}), (DefaultNSError,), True),
    ("config_empty_ns", lambda tx: PLSSDesc(tx, config="default_ns."), (DefaultNSError,), True),
    ("config_empty_ew", lambda tx: Tract(tx, config="n,default_ew="), (DefaultEWError,), True),
    ("config_dict_empty_ew", lambda tx: Config.from_dict({"default_ew": ""}), (DefaultEWError,), True),
    ("config_kwargs_empty_ns", lambda tx: Config.from_kwargs(default_ns=""), (DefaultNSError,), True),
    ("config_dict_int_ns", lambda tx: Config.from_dict({"default_ns": 5}), (DefaultNSError,), True),
    ("config_dict_bad_int", lambda tx: Config.from_dict({"qq_depth": "2"}), (ValueError,), True),
    ("config_dict_bad_bool", lambda tx: Config.from_dict({"clean_qq": "yes"}), (ValueError,), True),
    ("kw_bad_ns", lambda tx: PLSSDesc("154-R97W Sec 14: NE/4 " + tx).parse(default_ns="x"), (DefaultNSError,), False),
    ("kw_bad_ew", lambda tx: PLSSDesc("T154N-97 Sec 14: NE/4 " + tx).parse(default_ew="x"), (DefaultEWError,), False),
    ("find_twprge_bad_ns", lambda tx: find_twprge("T154-R97W " + tx, default_ns="q", preprocess=True), (DefaultNSError,), False),
    ("trs_bad_ns", lambda tx: pytrs.TRS.from_twprgesec(154, 97, 14, default_ns="x"), (DefaultNSError,), True),
    ("trs_bad_ew", lambda tx: pytrs.TRS.from_twprgesec(154, 97, 14, default_ew="x"), (DefaultEWError,), True),
]


def oracle_bad(c):
    label, thunk, ok, must = next(b for b in BAD if b[0] == c["bad"])
    tx = c["text"]["text"]
    try:
        thunk(tx)
    except ok:
        return []
    except Exception as exc:  # noqa
        return [Failure(f"bad_arg_wrong_exception:{label}", f"{label}: raised {type(exc).__name__}: {exc!s:.200}, documented {[k.__name__ for k in ok]}", text=tx)]
    if must:
        return [Failure(f"bad_arg_accepted:{label}", f"{label}: invalid argument was accepted without an exception", text=tx)]
    return []


def oracle_master(c):
    """Bad MasterConfig default: DefaultNSError/DefaultEWError, and nothing else; restored afterwards."""
    old = (MasterConfig.default_ns, MasterConfig.default_ew)
    tx = c["text"]["text"]
    fails = []
    try:
        if c["which"] == "ns":
            MasterConfig.default_ns = "x"
            want = DefaultNSError
            text = "T154-R97W Sec 14: NE/4 " + tx
        else:
            MasterConfig.default_ew = "x"
            want = DefaultEWError
            text = "T154N-R97 Sec 14: NE/4 " + tx
        try:
            PLSSDesc(text)
        except want:
            pass
        except Exception as exc:  # noqa
            fails.append(Failure(f"master_bad_{c['which']}_wrong_exception", f"raised {type(exc).__name__}: {exc!s:.200}, documented {want.__name__}", text=text))
    finally:
        MasterConfig.default_ns, MasterConfig.default_ew = old
    return fails


BAD_CASE = st.fixed_dictionaries({"text": soup.ANY_TEXT, "bad": st.sampled_from([b[0] for b in BAD])})
# every kind of invalid argument x a fixed set of texts (a finite table: enumerated, so that no kind can go unvisited)
BAD_TEXTS = ["", "T154N-R97W Sec 14: NE/4", "garbage", "NE/4 of Sec 1, T1N-R1E\nLots 1 - 3", "Township 154 North, Range 97 West, Section 14: N/2", "154-97 Sec",
             "Sec 14", "T154-R97 Sec 1: ALL, less and except the wellbore", "\n\t ", "½¼§ – 中", "Lot 1(40.0), Lot 1", "T154N-R97W Sec 1 - 3: Lots 5 - 1"]


def enum_bad(tier):
    return [{"text": {"kind": "fixed", "text": tx}, "bad": b[0]} for b in BAD for tx in BAD_TEXTS]

MASTER_CASE = st.fixed_dictionaries({"text": soup.ANY_TEXT, "which": st.sampled_from(["ns", "ew"])})

# volume: a process may see any number of distinct Twp/Rge/Sec strings ------------------------------------------------------

def enum_volume(tier):
    n = 12000 if tier == "quick" else 40000
    return [{"how": how, "n": n} for how in ("plss", "tract_from_twprgesec", "trs")]


def oracle_volume(c):
    """n descriptions / tracts / TRS with pairwise different Twp/Rge/Sec in one process: the last must work like the first."""
    from pytrs import TRS
    n = c["n"]
    count = 0
    for k in range(n):
        t, r, sec = k % 997 + 1, (k // 997) % 991 + 1, k % 36 + 1
        if c["how"] == "plss":
            if k % 4:            # (a parse costs ~0.3 ms; every fourth k keeps the sub-check at a few seconds)
                TRS(f"{t}s{r}e{sec:02d}")
                continue
            d = PLSSDesc(f"T{t}N-R{r}W Sec {sec}: NE/4")
            if len(d.tracts) != 1 or d.tracts[0].trs != f"{t}n{r}w{sec:02d}":
                return [Failure("volume_wrong_result", f"description #{k}: T{t}N-R{r}W Sec {sec} parsed to {[x.trs for x in d.tracts]}", k=k)]
        elif c["how"] == "tract_from_twprgesec":
            x = Tract.from_twprgesec("NE/4", t, r, sec)
            if x.trs != f"{t}n{r}w{sec:02d}":
                return [Failure("volume_wrong_result", f"Tract.from_twprgesec #{k} gives {x.trs}", k=k)]
        else:
            x = TRS(f"{t}n{r}e{sec:02d}")
            if x.trs != f"{t}n{r}e{sec:02d}" or x.twp_num != t or x.sec_num != sec:
                return [Failure("volume_wrong_result", f"TRS #{k} gives {x.trs}", k=k)]
        count += 1
    return []


SUBS = [
    Sub("plssdesc", oracle_plss, strategy=lambda tier: PLSS_CASE, nontrivial=nontrivial, classes=parsing.text_classes,
        render=parsing.render, n={"quick": 1500, "thorough": 12000}, shards={"quick": 8, "thorough": 16}, text_keys=("text",),
        essential=("gen=soup", "gen=raw", "gen=damaged", "gen=wellformed", "cfg=segment", "cfg=sec_within", "cfg=sec_colon_required",
                   "cfg=sec_colon_cautious", "cfg=ocr_scrub", "cfg=layout") + tuple(f"entry={e}" for e in set(parsing.ENTRIES))),
    Sub("tract", oracle_tract, strategy=lambda tier: TRACT_CASE, nontrivial=lambda c: bool(c["cfg"]) or len(c["text"]["text"]) > 10,
        classes=tract_classes, render=lambda c: {"text": c["text"]["text"], "config": configs.to_text(c["cfg"], c["style"]), "entry": c["entry"]},
        n={"quick": 1500, "thorough": 10000}, shards={"quick": 4, "thorough": 16}, text_keys=("text",)),
    Sub("invalid_args", oracle_bad, enumerate=enum_bad, classes=lambda c: [c["bad"]], exhaustive=True,
        render=lambda c: {"bad": c["bad"], "text": c["text"]["text"]}, shards={"quick": 2, "thorough": 2},
        text_keys=("text",), essential=tuple(b[0] for b in BAD)),
    Sub("invalid_args_random_text", oracle_bad, strategy=lambda tier: BAD_CASE, classes=lambda c: [c["bad"]],
        render=lambda c: {"bad": c["bad"], "text": c["text"]["text"]}, n={"quick": 300, "thorough": 3000}, shards={"quick": 2, "thorough": 4},
        text_keys=("text",)),
    Sub("master_config", oracle_master, strategy=lambda tier: MASTER_CASE, classes=lambda c: [c["which"]],
        render=lambda c: {"which": c["which"], "text": c["text"]["text"]}, n={"quick": 150, "thorough": 1500}, shards={"quick": 2, "thorough": 4},
        text_keys=("text",)),
    Sub("volume", oracle_volume, enumerate=enum_volume, exhaustive=False, nontrivial=lambda c: True, classes=lambda c: [f"how={c['how']}"], render=lambda c: c,
        shards={"quick": 3, "thorough": 3}, max_shrink=0),
]

# thorough tier: coverage-guided fuzzing (atheris / libFuzzer) of the same oracle, see fuzz/fuzz_parse.py
from vlib import fuzzrun  # noqa: E402
_fuzz_last = {}
SUBS.append(fuzzrun.fuzz_sub(ID, lambda: next(s for s in SUBS if s.name == "plssdesc"), _fuzz_last))
