"""C20 - optional parse modes are conservative where they are not needed."""
import re

from hypothesis import strategies as st

from vlib.core import Sub, Failure
from vlib import env, grammar as G, lists as L
from props.c11 import whole_text_modulo_cleanup

pytrs = env.import_pytrs()
from pytrs import PLSSDesc, Config  # noqa: E402

ID = "C20"
RULE = (
    "(segment) single-layout descriptions of the C01 grammar, all four layouts, with and without segment; (colons_present) "
    "section-first descriptions whose sections all carry a colon x {sec_colon_required, sec_colon_cautious}; (no_colons) the "
    "same descriptions rendered without any colon x {default, cautious, required}; (sec_within) (leading text, one section or "
    "a multi-section list, trailing text) x Twp/Rge placement {before, before on its own line, before with colon, between "
    "section and trailing text, after} under sec_within. Non-trivial: >= 2 tracts (first three), a multi-section or a Twp/Rge "
    "that is not first (sec_within). Distinct = distinct abstract case."
)
ASSUMPTIONS = [
    "Blocks and leading/trailing texts come from the C01 vocabulary (no Twp/Rge or section look-alikes, not starting with a number).",
]


def tr(d):
    return [(t.trs, t.desc) for t in d.tracts]


def n_tracts(d):
    return sum(len(L.expand(s["lst"]["items"])) for g in d["groups"] for s in g["secs"])


# (a) segment -------------------------------------------------------------

SEG_SPELLINGS = tuple(G.TR_SPELLINGS) + tuple(G.NODIR_SPELLINGS)
SEG_CASE = st.fixed_dictionaries({"d": G.description(None, 3, 3, SEG_SPELLINGS), "noise": st.lists(st.integers(0, 400), max_size=3),
                                  "noise_kind": st.sampled_from(["  ", "\t", " \t ", "   "])})


def seg_text(c):
    """Rendered description with a few single spaces widened (preprocessing collapses them again)."""
    text = G.render(c["d"])
    spaces = [i for i, ch in enumerate(text) if ch == " "]
    for k in sorted({spaces[n % len(spaces)] for n in c["noise"]} if spaces else (), reverse=True):
        text = text[:k] + c["noise_kind"] + text[k + 1:]
    return text


def oracle_segment(c):
    d = c["d"]
    text = seg_text(c)
    a = PLSSDesc(text)
    b = PLSSDesc(text, config="segment")
    fails = []
    if tr(a) != tr(b):
        fails.append(Failure(f"segment_changes_tracts:{d['layout']}", f"{text!r}: segment gives {tr(b)}, default gives {tr(a)}",
                             text=text, default=tr(a), segment=tr(b), e_flags=list(b.e_flags)))
    c = PLSSDesc(text, wait_to_parse=True)
    c.parse(segment=True)
    if tr(c) != tr(a):
        fails.append(Failure("segment_kw_changes_tracts", f"{text!r}: parse(segment=True) gives {tr(c)}, default {tr(a)}", text=text))
    return fails


# (b) colons present ---------------------------------------------------------

SECFIRST = st.one_of(G.description("TRS_desc"), G.description("S_desc_TR"))


def oracle_colons(d):
    text = G.render(d)
    a = PLSSDesc(text)
    fails = []
    for mode in ("sec_colon_required", "sec_colon_cautious", "sec_colon_required,sec_colon_cautious"):
        b = PLSSDesc(text, config=mode)
        if tr(a) != tr(b):
            fails.append(Failure(f"colon_mode_changes_tracts:{mode}", f"{text!r}: {mode} gives {tr(b)}, default {tr(a)}",
                                 text=text, default=tr(a), got=tr(b), w_flags=list(b.w_flags)))
        elif sorted(map(str, b.flags)) != sorted(map(str, a.flags)):
            fails.append(Failure(f"colon_mode_changes_flags:{mode}", f"{text!r}: {mode} flags {b.flags} vs default {a.flags}", text=text))
    return fails


# (b2) colons present, and a block that merely refers to another section ('... of said Sec 15: ...') -----------------------
REF_CASE = st.fixed_dictionaries({
    "d": SECFIRST, "w": st.sampled_from(["of", "of said", "in", "within", "in said", "of the said"]), "secw": st.sampled_from(["Sec", "Section", "Sec.", "Sect."]),
    "n": st.integers(1, 36), "lead": st.sampled_from([" and the E/2", ", being part", " and that portion lying", "; also a strip"]),
    "tail": st.sampled_from(["lying east of the river", "as shown on the plat", "containing 40 acres"]), "which": st.integers(0, 8),
})


def ref_text(c):
    text = G.render(c["d"])
    blocks = [sx["block"] for g in c["d"]["groups"] for sx in g["secs"]]
    blk = blocks[c["which"] % len(blocks)]
    phrase = f"{c['lead']} {c['w']} {c['secw']} {c['n']}: {c['tail']}"
    i = text.find(blk)
    return text[:i + len(blk)] + phrase + text[i + len(blk):]


def oracle_colons_ref(c):
    text = ref_text(c)
    a = PLSSDesc(text)
    fails = []
    for mode in ("sec_colon_required", "sec_colon_cautious"):
        b = PLSSDesc(text, config=mode)
        if tr(a) != tr(b):
            fails.append(Failure(f"colon_mode_changes_tracts_with_reference:{mode}", f"{text!r}: {mode} gives {tr(b)}, default {tr(a)}",
                                 text=text, default=tr(a), got=tr(b), w_flags=list(b.w_flags)))
        elif sorted(map(str, b.flags)) != sorted(map(str, a.flags)):
            fails.append(Failure(f"colon_mode_changes_flags_with_reference:{mode}", f"{text!r}: {mode} flags {b.flags} vs default {a.flags}", text=text))
    return fails


# (c) no colons ----------------------------------------------------------------

def oracle_nocolons(d):
    text = G.render(d, colon=" ")
    a = PLSSDesc(text)
    fails = []
    b = PLSSDesc(text, config="sec_colon_cautious")
    if tr(a) != tr(b):
        fails.append(Failure("cautious_changes_tracts", f"{text!r}: cautious gives {tr(b)}, default {tr(a)}", text=text, default=tr(a), got=tr(b)))
    pulled = [f for f in b.w_flags if isinstance(f, str) and f.startswith("pulled_sec_without_colon<")]
    if not pulled:
        fails.append(Failure("cautious_no_warning", f"{text!r}: cautious parse raised no pulled_sec_without_colon warning; w_flags={b.w_flags!r}", text=text))
    if sorted(map(str, b.e_flags)) != sorted(map(str, a.e_flags)):
        fails.append(Failure("cautious_changes_error_flags", f"{text!r}: cautious error flags {b.e_flags} vs default {a.e_flags}", text=text))
    c = PLSSDesc(text, config="sec_colon_required")
    if len(c.tracts) != 1:
        fails.append(Failure("required_count", f"{text!r}: sec_colon_required gives {len(c.tracts)} tracts: {tr(c)}", text=text, got=tr(c)))
    elif not whole_text_modulo_cleanup(c.tracts[0].desc, c.pp_desc):
        fails.append(Failure("required_desc", f"{text!r}: sec_colon_required tract desc {c.tracts[0].desc!r} is not the whole text {c.pp_desc!r}", text=text))
    # ... also when other optional modes are on at the same time
    # (with several Twp/Rges `segment` makes each segment fall back on its own, so it is only combined with a single Twp/Rge)
    for extra in (("sec_within", "segment", "sec_within,segment") if len(d["groups"]) == 1 else ("sec_within",)):
        cx = PLSSDesc(text, config=f"sec_colon_required,{extra}")
        if tr(cx) != tr(c) or sorted(map(str, cx.e_flags)) != sorted(map(str, c.e_flags)):
            fails.append(Failure(f"required_with_{extra.replace(',', '_')}", f"{text!r}: sec_colon_required,{extra} gives {tr(cx)} {cx.e_flags}, sec_colon_required alone {tr(c)} {c.e_flags}", text=text))
            break
    # the keyword channel must agree
    k = PLSSDesc(text, wait_to_parse=True)
    k.parse(sec_colon_required=True)
    if tr(k) != tr(c):
        fails.append(Failure("required_kw_differs", f"{text!r}: parse(sec_colon_required=True) gives {tr(k)}, config gives {tr(c)}", text=text))
    k2 = PLSSDesc(text, wait_to_parse=True)
    k2.parse(sec_colon_cautious=True)
    if tr(k2) != tr(b):
        fails.append(Failure("cautious_kw_differs", f"{text!r}: parse(sec_colon_cautious=True) gives {tr(k2)}, config gives {tr(b)}", text=text))
    # a keyword that contradicts the configured colon mode decides
    k3 = PLSSDesc(text, config="sec_colon_required", wait_to_parse=True)
    k3.parse(sec_colon_required=False, sec_colon_cautious=True)
    pulled3 = [f for f in k3.w_flags if isinstance(f, str) and f.startswith("pulled_sec_without_colon<")]
    if tr(k3) != tr(a) or not pulled3:
        fails.append(Failure("cautious_kw_over_required_config", f"{text!r}: config sec_colon_required + parse(sec_colon_required=False, sec_colon_cautious=True) gives {tr(k3)} with warnings {pulled3}, "
                             f"expected the default tracts {tr(a)} plus a warning", text=text))
    k4 = PLSSDesc(text, config="sec_colon_cautious", wait_to_parse=True)
    k4.parse(sec_colon_cautious=False)
    if tr(k4) != tr(a) or sorted(map(str, k4.flags)) != sorted(map(str, a.flags)):
        fails.append(Failure("cautious_kw_false_over_config", f"{text!r}: config sec_colon_cautious + parse(sec_colon_cautious=False) gives {tr(k4)} {k4.flags}, default gives {tr(a)} {a.flags}", text=text))
    k5 = PLSSDesc(text, config="sec_colon_cautious", wait_to_parse=True)
    k5.parse(sec_colon_required=True)
    if tr(k5) != tr(c):
        fails.append(Failure("required_kw_over_cautious_config", f"{text!r}: config sec_colon_cautious + parse(sec_colon_required=True) gives {tr(k5)}, sec_colon_required alone gives {tr(c)}", text=text))
    # being told the layout the text is written in (at creation, in the configuration, or for one parse) does not change the fallback
    lay = d["layout"]
    m1 = PLSSDesc(text, layout=lay, config="sec_colon_required")
    m2 = PLSSDesc(text, config=f"{lay},sec_colon_required")
    m3 = PLSSDesc(text, wait_to_parse=True)
    m3.parse(layout=lay, sec_colon_required=True)
    for how, m in ((f"layout={lay!r} at creation", m1), (f"config '{lay},sec_colon_required'", m2), (f"parse(layout={lay!r}, sec_colon_required=True)", m3)):
        if len(m.tracts) != 1 or (len(c.tracts) == 1 and tr(m) != tr(c)):
            fails.append(Failure("required_with_mandated_layout", f"{text!r}: sec_colon_required with {how} gives {tr(m)}, with the layout deduced {tr(c)}", text=text))
            break
    # an object configured to require colons, then re-configured to be merely cautious (explicit False): as a new cautious object
    r1 = PLSSDesc(text, config="sec_colon_required")
    r1.config = "sec_colon_required.False,sec_colon_cautious"
    r1.parse()
    r2 = PLSSDesc(text, config="sec_colon_required")
    r2.config = Config.from_kwargs(sec_colon_required=False, sec_colon_cautious=True)
    r2.parse()
    for how, r in (("config text", r1), ("Config.from_kwargs", r2)):
        pulled_r = [f for f in r.w_flags if isinstance(f, str) and f.startswith("pulled_sec_without_colon<")]
        if tr(r) != tr(b) or not pulled_r:
            fails.append(Failure("cautious_after_required_reconfigured", f"{text!r}: configured sec_colon_required, then re-configured ({how}) sec_colon_required.False,sec_colon_cautious and parsed: "
                                 f"{tr(r)} with warnings {pulled_r}, a new cautious object gives {tr(b)}", text=text))
            break
    # the one fallback tract is what asking for copy_all gives: the colon mode does not lose the Twp/Rge/Sec a plain copy_all identifies
    ca = PLSSDesc(text, layout="copy_all")
    if len(c.tracts) == 1 and len(ca.tracts) == 1 and ca.tracts[0].sec_num is not None and c.tracts[0].trs != ca.tracts[0].trs:
        fails.append(Failure("required_fallback_trs", f"{text!r}: the sec_colon_required fallback tract is {c.tracts[0].trs} {c.e_flags}, a requested copy_all gives {ca.tracts[0].trs}", text=text))
    return fails


# (d) sec_within ---------------------------------------------------------------

LEAD = ["That part of", "All that portion of", "That part of the NE/4 of", "A strip of land in", "The west 100 feet of", "That portion in"]
TRAIL = ["lying north of the river", "lying within the right-of-way of the county road", "that lies east of the creek",
         "lying outside the highway right-of-way", "described by metes and bounds", "lying south of the railroad"]
PLACE = ["before_space", "before_line", "before_colon", "between", "after", "after_line", "between_and_after", "before_and_after"]
BETWEEN_CONN = [", ", " of ", ", in ", " in ", ", all in ", ",\n"]
TRAIL2 = ["containing 40 acres, more or less", "subject to an easement for a road", "being the Wilson tract"]
_TRSP = ["std", "words", "abbr", "lower", "space"]

WITHIN = st.fixed_dictionaries({
    "lead": st.sampled_from(LEAD), "trail": st.sampled_from(TRAIL), "lst": L.rendered_list("sec", 36, 2), "place": st.sampled_from(PLACE),
    "twp": st.integers(1, 200), "rge": st.integers(3, 120), "ns": st.sampled_from("ns"), "ew": st.sampled_from("ew"),
    "tr_sp": st.sampled_from(_TRSP), "conn": st.sampled_from(BETWEEN_CONN), "trail2": st.sampled_from(TRAIL2),
    "upper": st.sampled_from([False, False, False, True]),      # the whole description typed in capitals
})


def within_text(c):
    trt = G.render_twprge(c)
    sec = L.render(c["lst"]["items"], c["lst"]["r"])
    core = f"{c['lead']} {sec} {c['trail']}"
    p = c["place"]
    if p == "before_space":
        return f"{trt} {core}"
    if p == "before_line":
        return f"{trt}\n{core}"
    if p == "before_colon":
        return f"{trt}: {core}"
    if p == "between":
        return f"{c['lead']} {sec}{c['conn']}{trt}, {c['trail']}"
    if p == "between_and_after":
        return f"{c['lead']} {sec} {c['trail']}{c['conn']}{trt}, {c['trail2']}"
    if p == "before_and_after":
        return f"{trt} {c['lead']} {sec} {c['trail']}, {c['trail2']}"
    if p == "after":
        return f"{core}, {trt}"
    return f"{core}\n{trt}"


def oracle_within(c):
    text = within_text(c)
    if c.get("upper"):
        text = text.upper()
    d = PLSSDesc(text, config="sec_within")
    lead = re.sub(r"\s+(of|in)$", "", c["lead"])
    want_desc = f"{lead} {c['trail']}"
    if c["place"] == "between_and_after":
        want_desc = f"{lead} {c['trail']} {c['trail2']}"
    elif c["place"] == "before_and_after":
        want_desc = f"{lead} {c['trail']}, {c['trail2']}"
    if c.get("upper"):
        want_desc = want_desc.upper()
    twprge = f"{c['twp']}{c['ns']}{c['rge']}{c['ew']}"
    want = [(f"{twprge}{n:02d}", want_desc) for n in L.expand(c["lst"]["items"])]
    fails = []
    ctx = dict(text=text, got=tr(d), want=want, w_flags=list(d.w_flags), e_flags=list(d.e_flags), layout=d.current_layout)
    if tr(d) != want:
        fails.append(Failure(f"sec_within_tracts:{c['place']}", f"{text!r}: sec_within gives {tr(d)}, expected {want}", **ctx))
        return fails
    for trs, _ in want:
        if f"sec_within<{trs}>" not in d.w_flags:
            fails.append(Failure("sec_within_warning", f"{text!r}: no sec_within<{trs}> warning; w_flags={d.w_flags}", **ctx))
            break
    if d.e_flags:
        fails.append(Failure("sec_within_error_flag", f"{text!r}: error flags {d.e_flags} under sec_within", **ctx))
    for t in d.tracts:
        if f"sec_within<{t.trs}>" not in t.w_flags:
            fails.append(Failure("sec_within_warning_not_on_tract", f"{text!r}: tract {t.trs} does not carry its sec_within warning; tract w_flags={t.w_flags}, description w_flags={d.w_flags}", **ctx))
            break
    k = PLSSDesc(text, wait_to_parse=True)
    k.parse(sec_within=True)
    if tr(k) != want:
        fails.append(Failure("sec_within_kw_differs", f"{text!r}: parse(sec_within=True) gives {tr(k)}", **ctx))
    # the description follows a single layout: segment changes nothing here either
    for extra in ("segment", "segment,parse_qq"):
        m = PLSSDesc(text, config=f"sec_within,{extra}")
        if tr(m) != want:
            fails.append(Failure(f"sec_within_with_{extra.split(',')[0]}", f"{text!r}: sec_within,{extra} gives {tr(m)}, expected {want}", **ctx))
            break
    return fails


def validate_within(c):
    items = c["lst"]["items"]
    if c.get("conn") not in BETWEEN_CONN or c.get("trail2") not in TRAIL2:
        return False
    if not items or c["lead"] not in LEAD or c["trail"] not in TRAIL or not (1 <= c["twp"] <= 999 and 3 <= c["rge"] <= 999):
        return False
    for it in items:
        if it[0] == "single":
            if not 1 <= it[1] <= 99:
                return False
        elif not (1 <= it[1] <= 99 and 1 <= it[2] <= 99 and it[1] != it[2]):
            return False
    return True


def lay_classes(d):
    return [f"layout={d['layout']}", f"groups={len(d['groups'])}"]


SUBS = [
    Sub("segment", oracle_segment, strategy=lambda tier: SEG_CASE, validate=lambda c: G.validate(c["d"]), nontrivial=lambda c: n_tracts(c["d"]) >= 2,
        classes=lambda c: lay_classes(c["d"]) + (["nodir_twprge"] if any(g["tr_sp"] in G.NODIR_SPELLINGS for g in c["d"]["groups"]) else []) + (["whitespace_noise"] if c["noise"] else []),
        render=lambda c: {"text": seg_text(c), "layout": c["d"]["layout"]},
        n={"quick": 600, "thorough": 8000}, shards={"quick": 6, "thorough": 16},
        essential=tuple(f"layout={x}" for x in G.LAYOUTS) + ("groups=2", "groups=3", "nodir_twprge", "whitespace_noise")),
    Sub("colons_present", oracle_colons, strategy=lambda tier: SECFIRST, validate=G.validate, nontrivial=lambda d: n_tracts(d) >= 2,
        classes=lay_classes, render=lambda d: {"text": G.render(d), "layout": d["layout"]},
        n={"quick": 400, "thorough": 6000}, shards={"quick": 4, "thorough": 16}),
    Sub("no_colons", oracle_nocolons, strategy=lambda tier: SECFIRST, validate=G.validate, nontrivial=lambda d: n_tracts(d) >= 2,
        classes=lay_classes, render=lambda d: {"text": G.render(d, colon=" "), "layout": d["layout"]},
        n={"quick": 400, "thorough": 6000}, shards={"quick": 4, "thorough": 16}),
    Sub("sec_within", oracle_within, strategy=lambda tier: WITHIN, validate=validate_within,
        nontrivial=lambda c: len(L.expand(c["lst"]["items"])) > 1 or not c["place"].startswith("before"),
        classes=lambda c: [f"place={c["place"]}", "multi" if len(L.expand(c["lst"]["items"])) > 1 else "single"] + (["capitals"] if c.get("upper") else []),
        render=lambda c: {"text": within_text(c)},
        n={"quick": 800, "thorough": 10000}, shards={"quick": 2, "thorough": 8},
        essential=tuple(f"place={p}" for p in PLACE) + ("multi", "single")),
    Sub("colons_present_reference", oracle_colons_ref, strategy=lambda tier: REF_CASE, validate=lambda c: G.validate(c["d"]), nontrivial=lambda c: n_tracts(c["d"]) >= 2,
        classes=lambda c: lay_classes(c["d"]) + [f"w={c['w']}"], render=lambda c: {"text": ref_text(c)},
        n={"quick": 400, "thorough": 6000}, shards={"quick": 4, "thorough": 16}),
]
