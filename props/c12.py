"""C12 - the Twp/Rge/Sec standard form is canonical, round-trips, and is strict."""
import re

from hypothesis import strategies as st

from vlib.core import Sub, Failure
from vlib import env

pytrs = env.import_pytrs()
from pytrs import TRS, Tract, MasterConfig, trs_to_dict  # noqa: E402

ID = "C12"
RULE = (
    "A: (twp 0..999, ns, rge 0..999, ew, sec 0..99) x encodings {int, digit str, zero-padded digit str, "
    "str+lower letter, str+upper letter} x default directions via argument and MasterConfig, with 0..2 "
    "components replaced by error/undefined placeholders; one-dimensional sweeps are enumerated exhaustively. "
    "B: strings obtained from a valid TRS by 1-2 character edits (insert/delete/substitute/prefix/suffix over "
    "'0-9nsewxzXZ_ -' plus newline, tab and period); single edits on a pool are enumerated exhaustively. Non-trivial: A = a non-int "
    "encoding or a placeholder component; B = the edited string is not itself in the reference grammar but still "
    "contains a fully numeric TRS-looking substring; every B string is also assigned to .trs of an existing TRS and Tract and given to "
    "TRS.trs_to_dict, and TRS(s) must compare and hash equal to TRS(TRS(s).trs). C: empty input (nothing, None, '') through 15 entry points "
    "x 4 previous values - enumerated - must read as the undefined TRS. Distinct = distinct canonical case encoding."
)
ASSUMPTIONS = [
    "Reference grammar G = (\\d{1,3}[ns]|XXXz|___z)(\\d{1,3}[ew]|XXXz|___z)(\\d{2}|XX|__) is written in the harness.",
    "Upper-case variants of a valid TRS and zero-padded numbers carrying a direction letter are not generated (DESIGN 6.6).",
]

G = re.compile(r"(\d{1,3}[ns]|XXXz|___z)(\d{1,3}[ew]|XXXz|___z)(\d{2}|XX|__)")
NUMERIC = re.compile(r"\d{1,3}[ns]\d{1,3}[ew]\d{2}")

ENC = ["int", "str", "zpad", "letter", "LETTER"]
SEC_ENC = ["int", "str", "zpad"]
PH = ["ERR", "UNDEF_STR", "NONE", "EMPTY"]


def enc_num(n, enc, letter, width=3):
    if enc == "int":
        return n
    if enc == "str":
        return str(n)
    if enc == "zpad":
        return str(n).rjust(width, "0")
    if enc == "letter":
        return f"{n}{letter}"
    if enc == "LETTER":
        return f"{n}{letter.upper()}"
    raise ValueError(enc)


def placeholder(kind, is_sec):
    if kind == "ERR":
        return ("XX" if is_sec else "XXXz"), ("XX" if is_sec else "XXXz")
    if kind == "UNDEF_STR":
        return ("__" if is_sec else "___z"), ("__" if is_sec else "___z")
    if kind == "NONE":
        return None, ("__" if is_sec else "___z")
    if kind == "EMPTY":
        return "", ("__" if is_sec else "___z")
    raise ValueError(kind)


def case_a():
    num3 = st.one_of(st.integers(0, 999), st.sampled_from([0, 1, 2, 9, 10, 11, 99, 100, 101, 111, 999]))
    num2 = st.one_of(st.integers(0, 99), st.sampled_from([0, 1, 9, 10, 99]))
    return st.fixed_dictionaries({
        "twp": num3, "rge": num3, "sec": num2,
        "ns": st.sampled_from("ns"), "ew": st.sampled_from("ew"),
        "twp_enc": st.sampled_from(ENC), "rge_enc": st.sampled_from(ENC), "sec_enc": st.sampled_from(SEC_ENC),
        "twp_ph": st.one_of(st.none(), st.none(), st.none(), st.sampled_from(PH)),
        "rge_ph": st.one_of(st.none(), st.none(), st.none(), st.sampled_from(PH)),
        "sec_ph": st.one_of(st.none(), st.none(), st.none(), st.sampled_from(PH)),
        "arg_defaults": st.booleans(), "upper_defaults": st.booleans(),
        "mc_ns": st.sampled_from("ns"), "mc_ew": st.sampled_from("ew"),
        "ocr": st.booleans(),
    })


def enum_a(tier):
    cases = []
    base = dict(twp=154, rge=97, sec=14, ns="n", ew="w", twp_enc="int", rge_enc="int", sec_enc="int",
                twp_ph=None, rge_ph=None, sec_ph=None, arg_defaults=True, mc_ns="n", mc_ew="w")
    for n in range(1000):
        for enc in ("int", "str", "zpad", "letter"):
            cases.append(dict(base, twp=n, twp_enc=enc, ns="s"))
            cases.append(dict(base, rge=n, rge_enc=enc, ew="e"))
    for n in range(100):
        for enc in SEC_ENC:
            cases.append(dict(base, sec=n, sec_enc=enc))
    for te in ENC:
        for re_ in ENC:
            for se in SEC_ENC:
                for ns in "ns":
                    for ew in "ew":
                        for argd in (True, False):
                            cases.append(dict(base, twp_enc=te, rge_enc=re_, sec_enc=se, ns=ns, ew=ew,
                                              arg_defaults=argd, mc_ns=ns, mc_ew=ew))
    for a in [None] + PH:
        for b in [None] + PH:
            for c in [None] + PH:
                cases.append(dict(base, twp_ph=a, rge_ph=b, sec_ph=c))
    return cases


def nontrivial_a(c):
    return (c["twp_enc"] != "int" or c["rge_enc"] != "int" or c["sec_enc"] != "int"
            or c["twp_ph"] or c["rge_ph"] or c["sec_ph"])


def classes_a(c):
    out = [f"twp_enc={c['twp_enc']}", f"sec_enc={c['sec_enc']}"]
    nph = sum(1 for k in ("twp_ph", "rge_ph", "sec_ph") if c[k])
    out.append(f"placeholders={nph}")
    out.append("defaults=arg" if c["arg_defaults"] else "defaults=master")
    return out


def build_args(c):
    """Return (twp_arg, rge_arg, sec_arg, exp_twp, exp_rge, exp_sec, kwargs)."""
    if c["twp_ph"]:
        twp_arg, exp_twp = placeholder(c["twp_ph"], False)
    else:
        twp_arg = enc_num(c["twp"], c["twp_enc"], c["ns"])
        exp_twp = f"{c['twp']}{c['ns']}"
    if c["rge_ph"]:
        rge_arg, exp_rge = placeholder(c["rge_ph"], False)
    else:
        rge_arg = enc_num(c["rge"], c["rge_enc"], c["ew"])
        exp_rge = f"{c['rge']}{c['ew']}"
    if c["sec_ph"]:
        sec_arg, exp_sec = placeholder(c["sec_ph"], True)
    else:
        sec_arg = enc_num(c["sec"], c["sec_enc"], "", width=2)
        exp_sec = f"{c['sec']:02d}"
    kw = {}
    if c["arg_defaults"]:
        kw = {"default_ns": c["ns"], "default_ew": c["ew"]}
        if c.get("upper_defaults"):
            # 'N' / 'S' / 'E' / 'W' are legal defaults too; the result is the canonical lower-case string all the same
            kw = {k: v.upper() for k, v in kw.items()}
    return twp_arg, rge_arg, sec_arg, exp_twp, exp_rge, exp_sec, kw


def check_decomposition(obj, exp_twp, exp_rge, exp_sec, label, fails):
    exp_trs = f"{exp_twp}{exp_rge}{exp_sec}"

    def bad(what, got, want):
        fails.append(Failure(f"A:{what}", f"{label}: {what} = {got!r}, expected {want!r}", got=got, want=want))

    if obj.trs != exp_trs:
        bad("trs", obj.trs, exp_trs)
        return
    for name, want in (("twp", exp_twp), ("rge", exp_rge), ("sec", exp_sec), ("twprge", exp_twp + exp_rge)):
        if getattr(obj, name) != want:
            bad(name, getattr(obj, name), want)
    m = re.fullmatch(r"(\d+)([ns])", exp_twp)
    want_num, want_dir = (int(m.group(1)), m.group(2)) if m else (None, None)
    if obj.twp_num != want_num:
        bad("twp_num", obj.twp_num, want_num)
    if obj.twp_ns != want_dir:
        bad("twp_ns", obj.twp_ns, want_dir)
    m = re.fullmatch(r"(\d+)([ew])", exp_rge)
    want_num, want_dir = (int(m.group(1)), m.group(2)) if m else (None, None)
    if obj.rge_num != want_num:
        bad("rge_num", obj.rge_num, want_num)
    if obj.rge_ew != want_dir:
        bad("rge_ew", obj.rge_ew, want_dir)
    want_sec = int(exp_sec) if exp_sec.isdigit() else None
    if obj.sec_num != want_sec:
        bad("sec_num", obj.sec_num, want_sec)
    # error / undefined reporting, component-wise
    for comp, exp in (("twp", exp_twp), ("rge", exp_rge), ("sec", exp_sec)):
        is_err = exp in ("XXXz", "XX")
        is_undef = exp in ("___z", "__")
        flags = {"twp": comp == "twp", "rge": comp == "rge", "sec": comp == "sec"}
        if isinstance(obj, Tract):
            got_err, got_undef = bool(obj.trs_is_error(**flags)), bool(obj.trs_is_undef(**flags))
        else:
            got_err, got_undef = bool(obj.is_error(**flags)), bool(obj.is_undef(**flags))
        if got_err != is_err:
            bad(f"{comp}_is_error", got_err, is_err)
        if got_undef != is_undef:
            bad(f"{comp}_is_undef", got_undef, is_undef)


def oracle_a(c):
    fails = []
    twp_arg, rge_arg, sec_arg, exp_twp, exp_rge, exp_sec, kw = build_args(c)
    exp_trs = f"{exp_twp}{exp_rge}{exp_sec}"
    old = (MasterConfig.default_ns, MasterConfig.default_ew)
    try:
        MasterConfig.default_ns, MasterConfig.default_ew = c["mc_ns"], c["mc_ew"]
        if not c["arg_defaults"]:
            # with no argument, MasterConfig decides: align the expectation
            pass
        # when defaults come from MasterConfig, the case's ns/ew must equal mc values for letter-less encodings
        if not c["arg_defaults"]:
            if not c["twp_ph"] and c["twp_enc"] in ("int", "str", "zpad"):
                exp_twp = f"{c['twp']}{c['mc_ns']}"
            if not c["rge_ph"] and c["rge_enc"] in ("int", "str", "zpad"):
                exp_rge = f"{c['rge']}{c['mc_ew']}"
            exp_trs = f"{exp_twp}{exp_rge}{exp_sec}"
        t1 = TRS.from_twprgesec(twp_arg, rge_arg, sec_arg, **kw)
        check_decomposition(t1, exp_twp, exp_rge, exp_sec, "TRS.from_twprgesec", fails)
        if c.get("ocr"):
            # digits are digits: switching the OCR scrub on must not change what well-formed components mean
            t1o = TRS.from_twprgesec(twp_arg, rge_arg, sec_arg, ocr_scrub=True, **kw)
            check_decomposition(t1o, exp_twp, exp_rge, exp_sec, "TRS.from_twprgesec(ocr_scrub=True)", fails)
            t2o = Tract.from_twprgesec("NE/4", twp_arg, rge_arg, sec_arg, config="ocr_scrub", **kw)
            check_decomposition(t2o, exp_twp, exp_rge, exp_sec, "Tract.from_twprgesec(config='ocr_scrub')", fails)
            t3o = Tract("NE/4")
            t3o.set_twprgesec(twp_arg, rge_arg, sec_arg, ocr_scrub=True, **kw)
            check_decomposition(t3o, exp_twp, exp_rge, exp_sec, "Tract.set_twprgesec(ocr_scrub=True)", fails)
        # an object that has been hashed and is then given another value must hash like that value
        tm = TRS("1n1w01" if exp_trs != "1n1w01" else "2s2e02")
        h0 = hash(tm)
        tm.set_twprgesec(twp_arg, rge_arg, sec_arg, **kw)
        # what the object held before does not colour the new value (whichever directions it had)
        for prior in ("23s10e05", "23n10w05", "XXXzXXXzXX"):
            tp = TRS(prior)
            tp.set_twprgesec(twp_arg, rge_arg, sec_arg, **kw)
            check_decomposition(tp, exp_twp, exp_rge, exp_sec, f"TRS({prior!r}).set_twprgesec", fails)
            tq = Tract("NE/4", trs=prior)
            tq.set_twprgesec(twp_arg, rge_arg, sec_arg, **kw)
            check_decomposition(tq, exp_twp, exp_rge, exp_sec, f"Tract(trs={prior!r}).set_twprgesec", fails)
        tn = TRS("9s9e09")
        hash(tn)
        tn.trs = exp_trs
        for label, obj in (("set_twprgesec", tm), (".trs =", tn)):
            if obj.trs == exp_trs and (not (obj == TRS(exp_trs)) or hash(obj) != hash(TRS(exp_trs))):
                fails.append(Failure("A:eq_hash_after_update", f"after {label} the TRS reads {obj.trs!r} but does not compare/hash equal to TRS({exp_trs!r})"))
        t2 = Tract.from_twprgesec("NE/4", twp_arg, rge_arg, sec_arg, **kw)
        check_decomposition(t2, exp_twp, exp_rge, exp_sec, "Tract.from_twprgesec", fails)
        t3 = Tract("NE/4")
        ret = t3.set_twprgesec(twp_arg, rge_arg, sec_arg, **kw)
        check_decomposition(t3, exp_twp, exp_rge, exp_sec, "Tract.set_twprgesec", fails)
        if ret != exp_trs:
            fails.append(Failure("A:set_twprgesec_return", f"set_twprgesec returned {ret!r}, expected {exp_trs!r}"))
        built = TRS.construct_trs(twp_arg, rge_arg, sec_arg, **kw)
        if built != exp_trs:
            fails.append(Failure("A:construct_trs_return", f"TRS.construct_trs({twp_arg!r}, {rge_arg!r}, {sec_arg!r}, {kw}) returned {built!r}, expected {exp_trs!r}"))
        t4 = TRS()
        ret4 = t4.set_twprgesec(twp_arg, rge_arg, sec_arg, **kw)
        if ret4 != exp_trs:
            fails.append(Failure("A:set_twprgesec_return", f"TRS.set_twprgesec returned {ret4!r}, expected {exp_trs!r}"))
        check_decomposition(t4, exp_twp, exp_rge, exp_sec, "TRS.set_twprgesec", fails)
        # direct construction from the canonical string, idempotence, equality, hashing
        t5 = TRS(exp_trs)
        check_decomposition(t5, exp_twp, exp_rge, exp_sec, "TRS(str)", fails)
        t6 = TRS(t5.trs)
        if t6.trs != t5.trs:
            fails.append(Failure("A:idempotent", f"TRS(TRS(s).trs).trs = {t6.trs!r} != {t5.trs!r}"))
        if not (t1 == t5) or hash(t1) != hash(t5):
            if t1.trs == t5.trs:
                fails.append(Failure("A:eq_hash", f"equal strings {t1.trs!r} do not compare/hash equal"))
        t7 = Tract("NE/4", trs=exp_trs)
        check_decomposition(t7, exp_twp, exp_rge, exp_sec, "Tract(trs=)", fails)
        d = trs_to_dict(exp_trs)
        if d.get("trs") != exp_trs:
            fails.append(Failure("A:trs_to_dict", f"trs_to_dict({exp_trs!r})['trs'] = {d.get('trs')!r}"))
        # what the converter hands out is the caller's to change: objects for the same string, old and new, keep decomposing as before
        for k in list(d):
            d[k] = "XX" if k == "sec" else ("POISON" if isinstance(d[k], str) else None)
        d["extra"] = 1
        TRS.trs_to_dict(exp_trs)["sec"] = "77"
        check_decomposition(t5, exp_twp, exp_rge, exp_sec, "TRS(str) after the caller changed the dict trs_to_dict returned", fails)
        check_decomposition(TRS(exp_trs), exp_twp, exp_rge, exp_sec, "a new TRS(str) after the caller changed the dict trs_to_dict returned", fails)
        again = trs_to_dict(exp_trs)
        if again.get("trs") != exp_trs or "extra" in again:
            fails.append(Failure("A:trs_to_dict_after_mutation", f"trs_to_dict({exp_trs!r}) after a caller changed an earlier result: {again}"))
    finally:
        MasterConfig.default_ns, MasterConfig.default_ew = old
    return fails


# ---------------------------------------------------------------------------
# B: strictness

ALPHABET = "0123456789nsewxzXZ_ -\n\t." + "|,[]^?*+()\\/:"       # (the second group: characters with a meaning inside a pattern)


def valid_pool():
    pool = []
    for twp in (1, 7, 15, 154, 100, 999, 0):
        for rge in (3, 97, 101, 2):
            for sec in (1, 14, 36, 0):
                pool.append(f"{twp}n{rge}w{sec:02d}")
    pool += ["1s1e01", "154s97e14", "XXXzXXXzXX", "___z___z__", "154nXXXz14", "XXXz97w14", "154n97wXX",
             "154n97w__", "___z97w14", "154n___z14"]
    return pool


def single_edits(s):
    out = []
    for i in range(len(s) + 1):
        for ch in ALPHABET:
            out.append(s[:i] + ch + s[i:])
    for i in range(len(s)):
        out.append(s[:i] + s[i + 1:])
        for ch in ALPHABET:
            if ch != s[i]:
                out.append(s[:i] + ch + s[i + 1:])
    return out


def enum_b(tier):
    pool = valid_pool()
    if tier == "quick":
        pool = pool[::9] + pool[-10:]
    seen = set()
    cases = []
    for s in pool:
        for e in [s] + single_edits(s):
            if e not in seen and not any(ch in "NSEW" for ch in e):
                seen.add(e)
                cases.append({"s": e})
    return cases


def case_b():
    def build(draw_tuple):
        twp, ns, rge, ew, sec, edits = draw_tuple
        s = f"{twp}{ns}{rge}{ew}{sec:02d}"
        for kind, pos, chars in edits:
            pos = pos % (len(s) + 1)
            if kind == "ins":
                s = s[:pos] + chars + s[pos:]
            elif kind == "del" and s:
                p = pos % len(s)
                s = s[:p] + s[p + 1:]
            elif kind == "sub" and s:
                p = pos % len(s)
                s = s[:p] + chars[:1] + s[p + 1:]
            elif kind == "pre":
                s = chars + s
            elif kind == "suf":
                s = s + chars
        return {"s": s}
    chars = st.text(alphabet=ALPHABET, min_size=1, max_size=3)
    edit = st.tuples(st.sampled_from(["ins", "del", "sub", "pre", "suf"]), st.integers(0, 12), chars)
    return st.tuples(st.integers(0, 999), st.sampled_from("ns"), st.integers(0, 999), st.sampled_from("ew"),
                     st.integers(0, 99), st.lists(edit, min_size=1, max_size=2)).map(build)


def nontrivial_b(c):
    s = c["s"]
    return G.fullmatch(s) is None and NUMERIC.search(s.lower()) is not None


def classes_b(c):
    s = c["s"]
    return ["in_grammar" if G.fullmatch(s) else "near_miss"]


def oracle_b(c):
    s = c["s"]
    fails = []
    results = {
        "TRS(s)": TRS(s),
        "Tract(trs=s)": Tract("NE/4", trs=s),
    }
    d = trs_to_dict(s)
    for label, obj in results.items():
        if s == "":
            want = "___z___z__"
            if obj.trs != want:
                fails.append(Failure("B:empty", f"{label}.trs = {obj.trs!r} for empty input, expected {want!r}"))
            continue
        if G.fullmatch(s):
            if obj.trs != s:
                fails.append(Failure("B:standard_form_changed", f"{label}: {s!r} is in standard form but became {obj.trs!r}"))
        else:
            err = obj.trs_is_error() if isinstance(obj, Tract) else obj.is_error()
            if not err:
                fails.append(Failure("B:near_miss_accepted",
                                     f"{label}: {s!r} is not in standard form but yields non-error {obj.trs!r}",
                                     s=s, got=obj.trs))
        if d.get("trs") != obj.trs:
            fails.append(Failure("B:trs_to_dict_differs", f"trs_to_dict({s!r})['trs']={d.get('trs')!r} vs {label}.trs={obj.trs!r}"))
    # the same string handed to an existing object, or to the class-level converter, reads the same
    ref = results["TRS(s)"].trs
    a = TRS("1n1w01")
    a.trs = s
    b = Tract("NE/4", trs="2s2e02")
    b.trs = s
    for label, got in ((".trs = s on a TRS", a.trs), (".trs = s on a Tract", b.trs), ("TRS.trs_to_dict(s)", TRS.trs_to_dict(s).get("trs"))):
        if got != ref:
            fails.append(Failure("B:entry_points_differ", f"{label} gives {got!r}, TRS({s!r}).trs is {ref!r}", s=s))
    # equal strings compare and hash equal, however they were arrived at
    twin = TRS(ref)
    first = TRS(s)
    if not (first == twin) or (first != twin) or hash(first) != hash(twin) or not (a == twin) or hash(a) != hash(twin):
        fails.append(Failure("B:equal_strings_unequal_objects", f"TRS({s!r}) and TRS({ref!r}) both read {ref!r} but do not compare / hash equal", s=s))
    return fails


# ---------------------------------------------------------------------------
# C: empty input means 'undefined', through every entry point

EMPTY_ENTRIES = ["TRS()", "TRS(None)", "TRS('')", "trs_attr_none", "trs_attr_empty", "trs_to_dict(None)", "trs_to_dict('')", "TRS.trs_to_dict(None)",
                 "Tract_no_trs", "Tract(trs=None)", "Tract(trs='')", "tract_attr_none", "tract_attr_empty", "from_twprgesec_nothing", "set_twprgesec_nothing"]
UNDEF = "___z___z__"


def enum_c(tier):
    return [{"entry": e, "before": b} for e in EMPTY_ENTRIES for b in ("154n97w14", "XXXzXXXzXX", "___z___z__", "1s1e__")]


def oracle_c(c):
    e, before = c["entry"], c["before"]
    obj = None
    if e == "TRS()":
        obj = TRS()
    elif e == "TRS(None)":
        obj = TRS(None)
    elif e == "TRS('')":
        obj = TRS("")
    elif e in ("trs_attr_none", "trs_attr_empty"):
        obj = TRS(before)
        obj.trs = None if e.endswith("none") else ""
    elif e == "trs_to_dict(None)":
        got = trs_to_dict(None).get("trs")
    elif e == "trs_to_dict('')":
        got = trs_to_dict("").get("trs")
    elif e == "TRS.trs_to_dict(None)":
        got = TRS.trs_to_dict(None).get("trs")
    elif e == "Tract_no_trs":
        obj = Tract("NE/4")
    elif e == "Tract(trs=None)":
        obj = Tract("NE/4", trs=None)
    elif e == "Tract(trs='')":
        obj = Tract("NE/4", trs="")
    elif e in ("tract_attr_none", "tract_attr_empty"):
        obj = Tract("NE/4", trs=before)
        obj.trs = None if e.endswith("none") else ""
    elif e == "from_twprgesec_nothing":
        obj = TRS.from_twprgesec()
    elif e == "set_twprgesec_nothing":
        obj = TRS(before)
        obj.set_twprgesec(None, None, None)
    if obj is not None:
        got = obj.trs
    fails = []
    if got != UNDEF:
        fails.append(Failure("C:empty_not_undefined", f"{e} (previous value {before!r}) reads {got!r}, expected {UNDEF!r}", entry=e))
    elif obj is not None:
        undef = obj.trs_is_undef() if isinstance(obj, Tract) else obj.is_undef()
        err = obj.trs_is_error() if isinstance(obj, Tract) else obj.is_error()
        if not undef or err:
            fails.append(Failure("C:empty_flags", f"{e}: is_undef={undef} is_error={err}", entry=e))
        if (obj.twp, obj.rge, obj.sec, obj.twp_num, obj.sec_num) != ("___z", "___z", "__", None, None):
            fails.append(Failure("C:empty_components", f"{e}: components {(obj.twp, obj.rge, obj.sec, obj.twp_num, obj.sec_num)}", entry=e))
    return fails


# A_malformed: a component that is not a number / number + direction never yields a valid-looking Twp/Rge/Sec -------------

MALFORMED = ["{n}{d}-{m}w", "-{n}", "{n}{d}-", "R.{n}{d}.", "{n}{d}:", "T{n}{d}", "{n}x", "{n}.5", "{n},{m}", "#{n}", "{n}{d} {m}"]


def enum_malformed(tier):
    cases = []
    for pos in ("twp", "rge", "sec"):
        for form in MALFORMED:
            for n, m in ((154, 97), (5, 3), (12, 100)):
                for entry in ("from_twprgesec", "set_twprgesec", "tract_from_twprgesec", "construct_trs"):
                    cases.append({"pos": pos, "form": form, "n": n, "m": m, "entry": entry})
    return cases


def oracle_malformed(c):
    d = {"twp": "n", "rge": "w", "sec": ""}[c["pos"]]
    bad = c["form"].format(n=c["n"], m=c["m"], d=d)
    if c["form"] == "-{n}":
        bad = -c["n"]
    args = {"twp": 154, "rge": 97, "sec": 14}
    args[c["pos"]] = bad
    a = (args["twp"], args["rge"], args["sec"])
    if c["entry"] == "from_twprgesec":
        trs = TRS.from_twprgesec(*a).trs
    elif c["entry"] == "set_twprgesec":
        o = TRS("1n1w01")
        o.set_twprgesec(*a)
        trs = o.trs
    elif c["entry"] == "tract_from_twprgesec":
        trs = Tract.from_twprgesec("NE/4", *a).trs
    else:
        trs = TRS(TRS.construct_trs(*a)).trs
    if not TRS(trs).is_error():
        return [Failure(f"A:malformed_component_accepted:{c['pos']}", f"{c['entry']}{a!r} gives the valid-looking {trs!r} although {c['pos']}={bad!r} is not a number with an optional direction", args=repr(a), got=trs)]
    return []


SUBS = [
    Sub("A_enum", oracle_a, enumerate=enum_a, nontrivial=nontrivial_a, classes=classes_a, exhaustive=True,
        shards={"quick": 8, "thorough": 16}),
    Sub("A_random", oracle_a, strategy=lambda tier: case_a(), nontrivial=nontrivial_a, classes=classes_a,
        n={"quick": 2500, "thorough": 40000}, shards={"quick": 4, "thorough": 16},
        essential=("placeholders=1", "placeholders=2", "defaults=master")),
    Sub("B_enum", oracle_b, enumerate=enum_b, nontrivial=nontrivial_b, classes=classes_b, exhaustive=True,
        shards={"quick": 8, "thorough": 16}, essential=("near_miss", "in_grammar")),
    Sub("B_random", oracle_b, strategy=lambda tier: case_b(), nontrivial=nontrivial_b, classes=classes_b,
        n={"quick": 4000, "thorough": 60000}, shards={"quick": 4, "thorough": 16}),
    Sub("C_empty", oracle_c, enumerate=enum_c, nontrivial=lambda c: c["before"] != UNDEF, classes=lambda c: [f"entry={c['entry']}"], exhaustive=True,
        shards={"quick": 1, "thorough": 1}, render=lambda c: c),
    Sub("A_malformed", oracle_malformed, enumerate=enum_malformed, nontrivial=lambda c: True, classes=lambda c: [f"pos={c['pos']}", f"entry={c['entry']}"], exhaustive=True,
        shards={"quick": 2, "thorough": 2}, render=lambda c: c),
]
