"""C05 - elided lists of sections and lots expand to exactly the numbers they denote."""
from hypothesis import strategies as st

from vlib.core import Sub, Failure
from vlib import env, lists as L

pytrs = env.import_pytrs()
from pytrs import PLSSDesc, Tract, TractList, find_sec  # noqa: E402

ID = "C05"
RULE = (
    "List models of 1..6 items - and, in two long-list sub-checks, up to 40 items - (single number | ascending range | descending range, span <= 12) over sections 1..99 "
    "and lots 1..999, rendered with every keyword form (singular/plural/abbreviated/symbol, with or without a space), "
    "through-spelling ('-', en/em dash, through, thru, thru., to), connective (', ' ' and ' ' & ' ', and ' '; ' line break) "
    "with the list wrapping onto the next line before or after a connective, and optional repetition of the keyword before an "
    "item or after a 'through'; optionally the same text is first read under other settings (copy_all, sec_colon_required, segment, "
    "another layout, a dry run) since the expansion may not depend on that; sections are also parsed under the colon modes (with the colon "
    "after the list left out for the cautious mode), segment and parse_qq, and find_sec is given texts with two separate lists. Expected expansion is computed from the "
    "model. Non-trivial: >= 2 items with at least one range. Distinct = distinct (model, rendering)."
)
ASSUMPTIONS = [
    "A repeated keyword inside a list is one of the forms the documentation shows (no trailing dot after a plural 's').",
    "A degenerate range 'a - a' is never generated.",
]

LAYOUTS = {
    "TRS_desc": "T154N-R97W {lst}: NE/4",
    "TR_desc_S": "T154N-R97W NE/4 of {lst}",
    "desc_STR": "NE/4 of {lst}, T154N-R97W",
    "S_desc_TR": "{lst}: NE/4, T154N-R97W",
}


SEC_PRIOR = ["none", "none", "copy_all", "sec_colon_required", "find_sec", "other_layout", "segment"]
LOT_PRIOR = ["none", "none", "dry_run", "unparsed_first", "other_depth"]


SEC_MODES = ["", "", "", "sec_colon_cautious", "sec_colon_cautious:nocolon", "sec_colon_required", "segment", "segment,sec_colon_cautious:nocolon", "parse_qq"]


def sec_case(long=False):
    return st.fixed_dictionaries({"lst": L.long_rendered_list("sec", 99) if long else L.rendered_list("sec", 99), "layout": st.sampled_from(sorted(LAYOUTS)),
                                  "prior": st.sampled_from(SEC_PRIOR),
                                  # a second, separate list in the same text (find_sec reports both, one after the other)
                                  "lst2": st.one_of(st.none(), L.rendered_list("sec", 99, 3)),
                                  # parse modes under which the expansion (and the non-sequential warning) must be the same
                                  "mode": st.sampled_from(SEC_MODES)})


ACRES = ["(40.10)", " (39.80)", "[38.5]", " [40]", "(0.5)", " (123.456)"]


def lot_case(long=False):
    return st.fixed_dictionaries({"lst": L.long_rendered_list("lot", 999) if long else L.rendered_list("lot", 999), "prior": st.sampled_from(LOT_PRIOR),
                                  # stated acreages (with or without a space in front) do not change which lots a list names
                                  "acres": st.lists(st.sampled_from([None, None, None] + ACRES), min_size=40, max_size=40)})


def lot_text(c):
    items = c["lst"]["items"]
    acres = {str(i): a for i, a in enumerate((c.get("acres") or [])[:len(items)]) if a and items[i][0] == "single"}
    return L.render(items, c["lst"]["r"], acres)


def validate(c):
    items = c["lst"]["items"]
    mx = 99 if "layout" in c else 999
    if not items:
        return False
    for it in items:
        if it[0] == "single":
            if not (1 <= it[1] <= mx):
                return False
        elif not (1 <= it[1] <= mx and 1 <= it[2] <= mx and it[1] != it[2]):
            return False
    return True


def nontrivial(c):
    items = c["lst"]["items"]
    return len(items) >= 2 and any(it[0] == "range" for it in items)


def classes(c):
    items, r = c["lst"]["items"], c["lst"]["r"]
    out = []
    if L.has_descending(items):
        out.append("has_descending")
    if any(it[0] == "range" and r["repeat_thru"][i] for i, it in enumerate(items)):
        out.append("keyword_after_through")
    if any(r["repeat_item"][i] for i in range(1, len(items))):
        out.append("keyword_repeated")
    if len({r["connect"][i] for i in range(1, len(items))}) > 1:
        out.append("mixed_connectives")
    if any(n >= 100 for it in items for n in it[1:]):
        out.append("three_digit")
    if "layout" in c:
        out.append(c["layout"])
    out.append(f"prior={c.get('prior', 'none')}")
    if "layout" in c:
        out.append(f"mode={c.get('mode', '')}")
        if c.get("lst2"):
            out.append("two_lists")
    if any("\n" in x for k in ("connect", "through") for x in r[k][:len(items)]):
        out.append("wraps_onto_next_line")
    out.append("items>=25" if len(items) >= 25 else "items>=7" if len(items) >= 7 else "items<=6")
    if any(r.get("zpad") or []):
        out.append("zero_padded_number")
    if "acres" in c and any(a and items[i][0] == "single" for i, a in enumerate(c["acres"][:len(items)])):
        out.append("with_acreage")
    return out


def sec_oracle(c):
    items, r = c["lst"]["items"], c["lst"]["r"]
    text = L.render(items, r)
    exp = [f"{n:02d}" for n in L.expand(items)]
    fails = []
    full = LAYOUTS[c["layout"]].format(lst=text)
    # what the list denotes does not depend on the same text having been read before under other settings
    prior = c.get("prior", "none")
    if prior == "copy_all":
        PLSSDesc(full, layout="copy_all")
    elif prior == "sec_colon_required":
        PLSSDesc(full.replace(":", " "), config="sec_colon_required")
        PLSSDesc(full, config="sec_colon_required")
    elif prior == "find_sec":
        find_sec(full)
    elif prior == "other_layout":
        other = PLSSDesc(full, wait_to_parse=True)
        other.parse(layout="TRS_desc" if c["layout"] != "TRS_desc" else "desc_STR", commit=False)
    elif prior == "segment":
        PLSSDesc(full, config="segment,sec_within")
    got = find_sec(text)
    if got != exp:
        fails.append(Failure("find_sec", f"find_sec({text!r}) = {got}, expected {exp}", text=text, got=got, want=exp))
    if c.get("lst2"):
        text2 = L.render(c["lst2"]["items"], c["lst2"]["r"])
        both = f"{text}: NE/4;\n{text2}: W/2"
        exp2 = exp + [f"{n:02d}" for n in L.expand(c["lst2"]["items"])]
        got2 = find_sec(both)
        if got2 != exp2:
            fails.append(Failure("find_sec_two_lists", f"find_sec({both!r}) = {got2}, expected {exp2}", text=both, got=got2, want=exp2))
    mode = c.get("mode", "")
    cfg = mode.replace(":nocolon", "")
    if mode.endswith(":nocolon") and c["layout"] in ("TRS_desc", "S_desc_TR"):
        full = full.replace(": NE/4", " NE/4")          # the cautious mode picks a colon-less section up in its second pass
    # the tracts an uncommitted parse returns are one per expanded section as well
    dry = PLSSDesc(full, config=cfg, wait_to_parse=True).parse(commit=False)
    if [t.sec for t in dry] != exp:
        fails.append(Failure("plss_secs_uncommitted", f"PLSSDesc({full!r}, wait_to_parse=True).parse(commit=False) returned sections {[t.sec for t in dry]}, expected {exp}", text=full))
    d = PLSSDesc(full, config=cfg)
    secs = [t.sec for t in d.tracts]
    if secs != exp:
        fails.append(Failure(f"plss_secs", f"PLSSDesc({full!r}) sections {secs}, expected {exp}",
                             text=full, got=secs, want=exp, layout=d.current_layout))
    else:
        descs = {t.desc for t in d.tracts}
        if descs != {"NE/4"}:
            fails.append(Failure("plss_desc", f"PLSSDesc({full!r}) tract descriptions {sorted(descs)}, expected all 'NE/4'", text=full))
        trs = {t.twprge for t in d.tracts}
        if trs != {"154n97w"}:
            fails.append(Failure("plss_twprge", f"PLSSDesc({full!r}) twprge {sorted(trs)}", text=full))
    if c["layout"] == "TRS_desc" and "colon" not in mode:          # (the colon modes ask for a colon, which these texts do not have)
        # a list that ends the text (nothing is described after it) still names one tract per section
        for shape, tail_text, lead in (("list_ends_text", f"T154N-R97W {text}", []), ("list_ends_text_after_a_tract", f"T154N-R97W Sec 36: NE/4, {text}", ["36"]),
                                       ("list_ends_text_colon", f"T154N-R97W {text}:\n", [])):
            dt = PLSSDesc(tail_text, config=cfg)
            if [t.sec for t in dt.tracts] != lead + exp:
                fails.append(Failure(f"plss_secs_{shape}", f"PLSSDesc({tail_text!r}) sections {[t.sec for t in dt.tracts]}, expected {lead + exp}", text=tail_text))
                break
    want_flag = L.has_descending(items)
    got_flag = "nonsequential_sections" in d.w_flags
    if want_flag != got_flag:
        fails.append(Failure("nonsequential_sections", f"{full!r}: nonsequential_sections present={got_flag}, expected {want_flag}",
                             text=full, w_flags=list(d.w_flags)))
    return fails


def lot_oracle(c):
    items, r = c["lst"]["items"], c["lst"]["r"]
    text = lot_text(c)
    nums = L.expand(items)
    exp = [f"L{n}" for n in nums]
    fails = []
    prior = c.get("prior", "none")
    if prior == "dry_run":
        Tract(text).parse(commit=False)
    elif prior == "unparsed_first":
        Tract(text)
    elif prior == "other_depth":
        Tract(text, parse_qq=True, config="qq_depth.1,suppress_lot_divs.False")
    t = Tract(text, parse_qq=True)
    if list(t.lots) != exp:
        fails.append(Failure("lots", f"Tract({text!r}).lots = {t.lots}, expected {exp}", text=text, got=list(t.lots), want=exp))
    elif list(t.ilots) != nums:
        fails.append(Failure("ilots", f"Tract({text!r}).ilots = {t.ilots}, expected {nums}", text=text))
    # the integer lot numbers mirror the lots also when they were looked at before the parse that found the lots
    late = Tract(text)
    before = list(late.ilots)
    late.parse()
    if list(late.ilots) != nums or before != []:
        fails.append(Failure("ilots_after_late_parse", f"Tract({text!r}): ilots {before} before and {late.ilots} after parse(), expected [] and {nums}", text=text))
    if t.qqs:
        fails.append(Failure("lots_spurious_qq", f"Tract({text!r}).qqs = {t.qqs}, expected none", text=text))
    # the same list as the description block of a PLSSDesc tract: same lots, same warning on the tract
    d = PLSSDesc(f"T154N-R97W Sec 14: {text}", parse_qq=True)
    if len(d.tracts) == 1:
        pt = d.tracts[0]
        if list(pt.lots) != exp or list(pt.ilots) != nums:
            fails.append(Failure("lots_via_plssdesc", f"PLSSDesc tract for {text!r}: lots {pt.lots} / ilots {pt.ilots}, expected {exp}", text=text))
        elif ("nonsequential_lots" in pt.w_flags) != L.has_descending(items):
            fails.append(Failure("nonsequential_lots_via_plssdesc", f"PLSSDesc tract for {text!r}: nonsequential_lots present={'nonsequential_lots' in pt.w_flags}, expected {L.has_descending(items)}; w_flags={pt.w_flags}", text=text))
    # ... of every tract of a multi-section block, also when the lots are parsed afterwards (parse_tracts), and of stand-alone
    # tracts parsed together as a TractList
    want = L.has_descending(items)
    dm = PLSSDesc(f"T154N-R97W Sec 5 - 7: {text}")
    dm.parse_tracts()
    tl = TractList([Tract(text, trs="154n97w01"), Tract(text, trs="154n97w02")])
    tl.parse_tracts()
    for how, objs, n_exp in (("PLSSDesc('Sec 5 - 7: ...').parse_tracts()", list(dm.tracts), 3), ("TractList.parse_tracts()", list(tl), 2)):
        if len(objs) != n_exp:
            continue
        for k, pt in enumerate(objs):
            if list(pt.lots) != exp or list(pt.ilots) != nums:
                fails.append(Failure("lots_via_parse_tracts", f"{how} for {text!r}: tract {k} lots {pt.lots} / ilots {pt.ilots}, expected {exp}", text=text))
                break
            if ("nonsequential_lots" in pt.w_flags) != want:
                fails.append(Failure("nonsequential_lots_via_parse_tracts", f"{how} for {text!r}: tract {k} nonsequential_lots present={'nonsequential_lots' in pt.w_flags}, expected {want}; w_flags={pt.w_flags}", text=text))
                break
    # the description of an existing (parsed) object replaced by this one
    re_t = Tract("Lots 8 thru 6, and Lot 12", parse_qq=(prior != "unparsed_first"))
    re_t.desc = text
    re_t.parse()
    if list(re_t.lots) != exp or list(re_t.ilots) != nums or ("nonsequential_lots" in re_t.w_flags) != want:
        fails.append(Failure("lots_after_desc_reassigned", f"Tract whose .desc was set to {text!r} and parsed: lots {re_t.lots} w_flags {re_t.w_flags}, expected {exp} / nonsequential={want}", text=text))
    want_flag = L.has_descending(items)
    got_flag = "nonsequential_lots" in t.w_flags
    if want_flag != got_flag:
        fails.append(Failure("nonsequential_lots", f"{text!r}: nonsequential_lots present={got_flag}, expected {want_flag}",
                             text=text, w_flags=list(t.w_flags)))
    return fails


def render_sec(c):
    return {"text": LAYOUTS[c["layout"]].format(lst=L.render(c["lst"]["items"], c["lst"]["r"])), "expected": L.expand(c["lst"]["items"])}


def render_lot(c):
    return {"text": lot_text(c), "expected": L.expand(c["lst"]["items"])}


SUBS = [
    Sub("sections", sec_oracle, strategy=lambda tier: sec_case(), nontrivial=nontrivial, classes=classes, render=render_sec, validate=validate,
        n={"quick": 1200, "thorough": 30000}, shards={"quick": 8, "thorough": 16},
        essential=("has_descending", "keyword_after_through", "keyword_repeated", "mixed_connectives", "wraps_onto_next_line",
                   "prior=copy_all", "prior=sec_colon_required", "two_lists", "mode=sec_colon_cautious:nocolon", "mode=segment") + tuple(LAYOUTS)),
    Sub("lots", lot_oracle, strategy=lambda tier: lot_case(), nontrivial=nontrivial, classes=classes, render=render_lot, validate=validate,
        n={"quick": 1200, "thorough": 30000}, shards={"quick": 8, "thorough": 16},
        essential=("has_descending", "keyword_after_through", "three_digit", "with_acreage", "zero_padded_number")),
    # long lists (a whole township of sections written out, long lot schedules)
    Sub("long_sections", sec_oracle, strategy=lambda tier: sec_case(True), nontrivial=nontrivial, classes=classes, render=render_sec, validate=validate,
        n={"quick": 120, "thorough": 3000}, shards={"quick": 4, "thorough": 16}, essential=("items>=25", "items>=7")),
    Sub("long_lots", lot_oracle, strategy=lambda tier: lot_case(True), nontrivial=nontrivial, classes=classes, render=render_lot, validate=validate,
        n={"quick": 120, "thorough": 3000}, shards={"quick": 4, "thorough": 16}, essential=("items>=25", "items>=7")),
]
