"""C07 - aliquot spelling does not matter and preprocessing is a fixed point."""
from hypothesis import strategies as st

from vlib.core import Sub, Failure
from vlib import env, aliquot as aq

pytrs = env.import_pytrs()
from pytrs import Tract  # noqa: E402

ID = "C07"
RULE = (
    "Aliquot chains of length 1..4 with an independently drawn documented spelling per component (symbols, /2 /4, bare 2 4, "
    "a space before the bare digit, 1/2 1/4 with and without spaces, direction words with Half / Quarter / One Half / One Quarter / 1/2 / 1/4, dotted "
    "abbreviations, upper/lower/title case) and joiner per gap (nothing after a digit or glyph, space, double space, "
    "' of ', ' of the ', ' of<newline>', newline) x clean_qq x depth settings, a bare two-letter quarter being used anywhere under "
    "clean_qq and directly after a half under every configuration (chain continuing or not); plus the exhaustive table of bare two-letter "
    "quarters in the contexts {alone, after a spelled half, after a symbol half, after 'of the', after a comma}; and spelled chains "
    "written in front of lots ('... of Lot 1', '... of Lots 1 - 3', ', Lot 4', ...) whose lots, lot divisions, acreages and aliquots must "
    "equal those of the canonical spelling. Oracle = canonical "
    "text built by the harness and the library's result on that canonical text. Non-trivial: >= 2 components using at "
    "least two different spelling families. Distinct = distinct rendered text x configuration."
)
ASSUMPTIONS = [
    "A component spelling is joined to the next without a space only after 2, 4, ½ or ¼ (DESIGN 6.5).",
    "Without clean_qq bare quarters are generated only as an unbroken run directly after a half that starts the chain or is separated from the component before it (the half is recognised at a word boundary; 'SW¼N½ SW' is outside the statement, which only says when a bare quarter may be read as an aliquot).",
]

CONFIGS = ["", "clean_qq", "qq_depth_min.1", "qq_depth.1", "qq_depth_max.2", "break_halves", "qq_depth_min.3",
           "clean_qq,qq_depth.2", "clean_qq,break_halves,qq_depth_min.1", "qq_depth_min.2,qq_depth_max.3"]


CLEAN_CONFIGS = [c for c in CONFIGS if "clean_qq" in c]


SUFFIXES = ["", "", "", ".", ". ", ";", ",", ".\n"]      # what ends the tract description after the last component


def case():
    return st.tuples(_case(), st.sampled_from(SUFFIXES)).map(lambda t: dict(t[0], suffix=t[1]))


def _case():
    plain = st.fixed_dictionaries({"sc": aq.spelled_chain_strategy(1, 4), "config": st.sampled_from(CONFIGS)})
    # bare two-letter quarters anywhere in a chain are documented spellings under clean_qq
    bare = st.fixed_dictionaries({"sc": aq.spelled_chain_strategy(1, 4, bare=True), "config": st.sampled_from(CLEAN_CONFIGS)})
    # ... and directly after a half under every configuration
    after_half = st.fixed_dictionaries({"sc": aq.spelled_chain_strategy(2, 4, bare_after_half=True), "config": st.sampled_from(CONFIGS)})
    return st.one_of(plain, plain, bare, after_half)


def validate(c):
    sc = c["sc"]
    if not sc["chain"] or len(sc["chain"]) != len(sc["spell"]) or len(sc["joiners"]) != len(sc["chain"]) - 1:
        return False
    clean = "clean_qq" in c["config"]
    for i, (comp, (fam, text)) in enumerate(zip(sc["chain"], sc["spell"])):
        in_run = i > 0 and (sc["chain"][i - 1] in aq.HALVES or sc["spell"][i - 1][0] == "bareq")
        if comp not in aq.COMPONENTS or text.lower() not in {t.lower() for _, t in aq.spellings(comp, bare=clean or in_run)}:
            return False
        if fam == "bareq" and text.upper() != comp:
            return False
    for i, j in enumerate(sc["joiners"]):
        if j not in aq.JOINERS or (j == "" and not aq.glue_ok(sc["spell"], i)):
            return False
    if not clean:
        for i, (fam, text) in enumerate(sc["spell"]):
            if fam == "bareq" and i >= 2 and sc["chain"][i - 1] in aq.HALVES and sc["joiners"][i - 2] == "":
                return False
    return True


def nontrivial(c):
    fams = {f for f, _ in c["sc"]["spell"]}
    return len(c["sc"]["chain"]) >= 2 and len(fams) >= 2


def classes(c):
    out = [f"fam={f}" for f, _ in c["sc"]["spell"]]
    out += [f"join={j!r}" for j in c["sc"]["joiners"]]
    out.append("clean_qq" if "clean_qq" in c["config"] else "no_clean_qq")
    if c.get("suffix"):
        out.append(f"suffix={c['suffix']!r}")
    sp = c["sc"]["spell"]
    if "clean_qq" not in c["config"] and any(f == "bareq" for f, _ in sp):
        out.append("bare_quarter_after_half_without_clean_qq")
        if any(f == "bareq" and i < len(sp) - 1 for i, (f, _) in enumerate(sp)):
            out.append("chain_continues_after_bare_quarter")
        if any(a[0] == "bareq" and b[0] == "bareq" for a, b in zip(sp, sp[1:])):
            out.append("run_of_bare_quarters")
    return sorted(set(out))


def snapshot(t):
    return {"pp_desc": t.pp_desc, "lots": list(t.lots), "qqs": list(t.qqs), "aliquots_whole": list(t.aliquots_whole)}


def oracle(c):
    chain = c["sc"]["chain"]
    suffix = c.get("suffix", "")
    text = aq.render_spelled(c["sc"]) + suffix
    canon_text = aq.canonical_text(chain) + suffix
    cfg = c["config"]
    fails = []
    t = Tract(text, parse_qq=True, config=cfg)
    ref = Tract(canon_text, parse_qq=True, config=cfg)
    ctx = dict(text=text, canonical=canon_text, config=cfg)
    if t.pp_desc != canon_text:
        fails.append(Failure("pp_desc", f"Tract({text!r}, config={cfg!r}).pp_desc = {t.pp_desc!r}, expected {canon_text!r}", **ctx))
    unparsed = Tract(text, config=cfg.replace("parse_qq", ""))
    pre = unparsed.preprocess()
    if pre != canon_text:
        fails.append(Failure("preprocess", f"Tract({text!r}).preprocess() = {pre!r}, expected {canon_text!r}", **ctx))
    if unparsed.pp_desc != canon_text:
        fails.append(Failure("pp_desc_unparsed", f"unparsed Tract({text!r}).pp_desc = {unparsed.pp_desc!r}, expected {canon_text!r}", **ctx))
    a, b = snapshot(t), snapshot(ref)
    if ref.pp_desc != canon_text:
        fails.append(Failure("canonical_not_fixed", f"canonical {canon_text!r} preprocesses to {ref.pp_desc!r}", **ctx))
    for k in ("lots", "qqs", "aliquots_whole"):
        if a[k] != b[k]:
            fails.append(Failure(f"differs:{k}", f"{text!r} gives {k}={a[k]} but canonical {canon_text!r} gives {b[k]} [{cfg}]", **ctx))
    if b["aliquots_whole"] != [aq.frac_free(chain)]:
        fails.append(Failure("canonical_whole", f"canonical {canon_text!r}: aliquots_whole={b['aliquots_whole']}, expected {[aq.frac_free(chain)]}", **ctx))
    # fixed point: preprocess / parse the normalised text again
    again = Tract(t.pp_desc, parse_qq=True, config=cfg)
    if again.pp_desc != t.pp_desc:
        fails.append(Failure("fixed_point_text", f"normalising {t.pp_desc!r} again gives {again.pp_desc!r}", **ctx))
    if snapshot(again) != a:
        fails.append(Failure("fixed_point_results", f"parsing normalised {t.pp_desc!r} again gives {snapshot(again)} vs {a}", **ctx))
    return fails


def render(c):
    return {"text": aq.render_spelled(c["sc"]) + c.get("suffix", ""), "canonical": aq.canonical_text(c["sc"]["chain"]) + c.get("suffix", ""), "config": c["config"]}


# ---------------------------------------------------------------------------
# bare quarters

HALF_CONTEXTS = {
    "alone": ("{q}", False),
    "after_symbol_half": ("N½{q}", True),
    "after_slash_half": ("N/2{q}", True),
    "after_bare_half": ("N2{q}", True),
    "after_spelled_half": ("North Half {q}", True),
    "after_half_space": ("S/2 {q}", True),
    "after_half_of": ("E/2 of {q}", True),
    "after_half_of_the": ("W½ of the {q}", True),
    "after_comma": ("N/2, {q}", False),
    "after_semicolon": ("N/2; {q}", False),
    "after_quarter": ("SW/4, {q}", False),
    "after_lot": ("Lot 1, {q}", False),
}


def enum_bare(tier):
    cases = []
    for q in aq.QUARTERS:
        for how in ("upper", "lower"):
            for ctxname in HALF_CONTEXTS:
                for clean in (False, True):
                    cases.append({"q": q, "case": how, "ctx": ctxname, "clean_qq": clean})
    return cases


def oracle_bare(c):
    q = c["q"] if c["case"] == "upper" else c["q"].lower()
    tmpl, follows_half = HALF_CONTEXTS[c["ctx"]]
    if c["ctx"] == "after_quarter" and c["q"] == "SW":
        tmpl = tmpl.replace("SW/4", "NE/4")
    text = tmpl.format(q=q)
    cfg = "clean_qq" if c["clean_qq"] else ""
    t = Tract(text, parse_qq=True, config=cfg)
    is_aliquot = (c["q"] + "¼") in t.pp_desc
    want = c["clean_qq"] or follows_half
    fails = []
    # the same object parsed again with the opposite clean_qq must read like a fresh object with that setting
    other = Tract(text, parse_qq=True, config="" if c["clean_qq"] else "clean_qq")
    t.parse(clean_qq=not c["clean_qq"])
    if (t.pp_desc, list(t.lots), list(t.qqs)) != (other.pp_desc, list(other.lots), list(other.qqs)):
        fails.append(Failure("bare_quarter_after_toggle", f"{text!r}: created with clean_qq={c['clean_qq']}, then parse(clean_qq={not c['clean_qq']}) gives {t.pp_desc!r} {t.qqs}, a fresh Tract gives {other.pp_desc!r} {other.qqs}",
                             text=text))
    t.parse(clean_qq=c["clean_qq"])
    # ... and the same through re-configuration with an explicit value instead of a keyword
    r = Tract(text, parse_qq=True, config=cfg)
    r.config = "clean_qq.False" if c["clean_qq"] else "clean_qq.True"
    r.parse()
    if (r.pp_desc, list(r.lots), list(r.qqs)) != (other.pp_desc, list(other.lots), list(other.qqs)):
        fails.append(Failure("bare_quarter_after_reconfiguration", f"{text!r}: created with clean_qq={c['clean_qq']}, then .config = 'clean_qq.{not c['clean_qq']}' and parse() gives {r.pp_desc!r} {r.qqs}, a fresh Tract gives {other.pp_desc!r} {other.qqs}",
                             text=text))
    # a later configuration that does not mention clean_qq leaves it in force
    u = Tract(text, config=cfg)
    u.config = "qq_depth_min.1"
    u.parse()
    fresh_u = Tract(text, parse_qq=True, config=",".join(x for x in (cfg, "qq_depth_min.1") if x))
    if (u.pp_desc, list(u.lots), list(u.qqs)) != (fresh_u.pp_desc, list(fresh_u.lots), list(fresh_u.qqs)):
        fails.append(Failure("bare_quarter_after_unrelated_configuration", f"{text!r}: created with config {cfg!r}, then .config = 'qq_depth_min.1' and parse() gives {u.pp_desc!r} {u.qqs}, a fresh Tract with both gives {fresh_u.pp_desc!r} {fresh_u.qqs}",
                             text=text))
    # the attribute set directly; and preprocess() (no keyword) after either kind of change follows the current setting
    for how in ("attribute", "config"):
        a = Tract(text, parse_qq=(how == "config"), config=cfg)
        if how == "attribute":
            a.clean_qq = not c["clean_qq"]
        else:
            a.config = "clean_qq.False" if c["clean_qq"] else "clean_qq.True"
        pre = a.preprocess()
        if pre != other.pp_desc:
            fails.append(Failure("bare_quarter_preprocess_after_change", f"{text!r}: created with clean_qq={c['clean_qq']}, switched through the {how}, preprocess() gives {pre!r}, a fresh Tract has {other.pp_desc!r}", text=text))
        a.parse()
        if (a.pp_desc, list(a.lots), list(a.qqs)) != (other.pp_desc, list(other.lots), list(other.qqs)):
            fails.append(Failure("bare_quarter_after_attribute", f"{text!r}: created with clean_qq={c['clean_qq']}, switched through the {how}, parse() gives {a.pp_desc!r} {a.qqs}, a fresh Tract gives {other.pp_desc!r} {other.qqs}", text=text))
    is_aliquot = (c["q"] + "¼") in t.pp_desc
    if is_aliquot != want:
        fails.append(Failure("bare_quarter", f"{text!r} [clean_qq={c['clean_qq']}]: bare {q!r} treated as aliquot={is_aliquot}, expected {want} (pp_desc {t.pp_desc!r})",
                             text=text, pp_desc=t.pp_desc))
    else:
        # the pieces must agree with the canonical reading
        canon_text = tmpl.format(q=c["q"] + "¼") if want else None
        if canon_text:
            ref = Tract(canon_text, parse_qq=True, config=cfg)
            if list(ref.qqs) != list(t.qqs) or list(ref.lots) != list(t.lots):
                fails.append(Failure("bare_quarter_results", f"{text!r}: qqs {t.qqs} lots {t.lots} vs {canon_text!r}: {ref.qqs} {ref.lots}", text=text))
        else:
            if any(p.endswith(c["q"]) and len(p) == 4 and False for p in t.qqs):
                pass
    return fails


# aliquots in front of lots: the spelling of the aliquot may not change which lots (and lot divisions) are reported ----------

LOT_TAILS = [" of Lot 1", " of Lots 1 - 3", " of Lot 2(38.5)", " of L4", ", Lot 4", "; Lots 2, 3", " of Lots 1, 2 and 5", " OF LOT 7", " of\nLot 1", " Lot 6"]
LOT_CONFIGS = ["", "clean_qq", "suppress_lot_divs", "clean_qq,suppress_lot_divs.False", "qq_depth.1", "clean_qq,qq_depth_min.1"]


def lots_case():
    plain = st.fixed_dictionaries({"sc": aq.spelled_chain_strategy(1, 3), "config": st.sampled_from(LOT_CONFIGS), "tail": st.sampled_from(LOT_TAILS)})
    bare = st.fixed_dictionaries({"sc": aq.spelled_chain_strategy(1, 3, bare=True), "config": st.sampled_from([c for c in LOT_CONFIGS if "clean_qq" in c]),
                                  "tail": st.sampled_from(LOT_TAILS)})
    after_half = st.fixed_dictionaries({"sc": aq.spelled_chain_strategy(2, 3, bare_after_half=True), "config": st.sampled_from(LOT_CONFIGS),
                                        "tail": st.sampled_from(LOT_TAILS)})
    return st.one_of(plain, bare, after_half)


def oracle_lots(c):
    chain = c["sc"]["chain"]
    text = aq.render_spelled(c["sc"]) + c["tail"]
    canon_text = aq.canonical_text(chain) + c["tail"]
    cfg = c["config"]
    t = Tract(text, parse_qq=True, config=cfg)
    ref = Tract(canon_text, parse_qq=True, config=cfg)
    fails = []
    ctx = dict(text=text, canonical=canon_text, config=cfg)
    for k in ("lots", "qqs", "lots_qqs"):
        a, b = list(getattr(t, k)), list(getattr(ref, k))
        if a != b:
            fails.append(Failure(f"with_lots:{k}", f"{text!r} gives {k}={a} but {canon_text!r} gives {b} [{cfg}]", **ctx))
            break
    if dict(t.lot_acres) != dict(ref.lot_acres):
        fails.append(Failure("with_lots:lot_acres", f"{text!r} gives lot_acres={t.lot_acres} but {canon_text!r} gives {ref.lot_acres} [{cfg}]", **ctx))
    again = Tract(t.pp_desc, parse_qq=True, config=cfg)
    if (again.pp_desc, list(again.lots), list(again.qqs)) != (t.pp_desc, list(t.lots), list(t.qqs)):
        fails.append(Failure("with_lots:fixed_point", f"parsing normalised {t.pp_desc!r} again gives {again.pp_desc!r} {again.lots} {again.qqs} vs {t.lots} {t.qqs}", **ctx))
    _last_lots["div"] = any(" of L" in x for x in ref.lots)
    return fails


_last_lots = {}


def lots_classes(c):
    out = classes(c)
    out.append(f"tail={c['tail']!r}")
    if _last_lots.get("div"):
        out.append("lot_division_reported")
    return out


SUBS = [
    Sub("spellings", oracle, strategy=lambda tier: case(), validate=validate, nontrivial=nontrivial, classes=classes, render=render,
        n={"quick": 2500, "thorough": 30000}, shards={"quick": 8, "thorough": 16},
        essential=("suffix='.'", "join='\\n        '", "bare_quarter_after_half_without_clean_qq", "chain_continues_after_bare_quarter", "run_of_bare_quarters", "fam=word", "fam=bare", "fam=bare_sp", "fam=slash_sp", "fam=dot", "fam=bareq", "join=''", "join=' of the '", "join=' OF THE '", "join='\\n'", "clean_qq")),
    Sub("with_lots", oracle_lots, strategy=lambda tier: lots_case(), validate=validate, nontrivial=lambda c: bool(_last_lots.get("div")), classes=lots_classes,
        render=lambda c: {"text": aq.render_spelled(c["sc"]) + c["tail"], "config": c["config"]},
        n={"quick": 600, "thorough": 8000}, shards={"quick": 4, "thorough": 16}, essential=("lot_division_reported", "fam=bareq", "clean_qq")),
    Sub("bare_quarters", oracle_bare, enumerate=enum_bare, exhaustive=True, shards={"quick": 2, "thorough": 2},
        classes=lambda c: [c["ctx"], "clean" if c["clean_qq"] else "noclean"], render=lambda c: c),
]
