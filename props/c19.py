"""C19 - bulk export is faithful, ordered and total over documented attributes."""
import csv
import os
import shutil
import tempfile

from hypothesis import strategies as st

from vlib.core import Sub, Failure
from vlib import env, grammar as G

pytrs = env.import_pytrs()
from pytrs import PLSSDesc, Tract, TractList  # noqa: E402
from pytrs.tractwriter import TractWriter  # noqa: E402

ID = "C19"
RULE = (
    "Parsed descriptions (C01 grammar plus blocks with lots, acreages, duplicate and non-sequential lots, exception wording, "
    "multi-line text, commas and double quotes; lots/aliquots parsed) x attribute selections {every single name of "
    "Tract.ATTRIBUTES - enumerated exhaustively for both writers -, random subsets and orders, optionally one unknown name} x "
    "header options {False, True, list, dict} x file state {new, existing} x mode {w, a} x writer {tracts_to_dict, "
    "tracts_to_list, iter_to_dict, iter_to_list, tracts_to_csv - each through the TractList and through the PLSSDesc -, TractWriter "
    "with 1..3 write() calls handed descriptions, a TractList, a plain list of tracts, a generator, a mixed list or one Tract, plus_cols, uid}. The "
    "csv file is read back with csv.reader. Non-trivial: a selected attribute is a non-empty list/dict on some tract, or a "
    "description is multi-line or quoted. Distinct = distinct case."
)
ASSUMPTIONS = [
    "A list/tuple/dict cell must contain the str() of every leaf in order and no other alphanumeric content; for flat lists of strings it must be exactly ', '.join (the format the README shows).",
]

ATTRS = list(Tract.ATTRIBUTES)
SPECIAL_BLOCKS = ['NE/4, being the "Smith" tract', "Lots 1 - 3,\nS/2N/2", "Lot 1(40.02), Lot 2(39.98), Lot 1", "Lots 5 - 1, NE/4, NE/4",
                  'W/2, less and except the "Jones #1" wellbore, insofar as it covers depths below 5000 feet', "ALL", "N/2 of Lot 4"]
WORK = os.path.join(env.OUT_ROOT, ".work", "c19")


@st.composite
def desc_text(draw):
    d = draw(G.description(None, 2, 2))
    groups = []
    for g in d["groups"]:
        secs = []
        for s in g["secs"]:
            s = dict(s)
            if draw(st.integers(0, 1)):
                s["block"] = draw(st.sampled_from(SPECIAL_BLOCKS))
            secs.append(s)
        groups.append(dict(g, secs=secs))
    return G.render({"layout": d["layout"], "groups": groups})


SELECTION = st.lists(st.sampled_from(ATTRS), min_size=1, max_size=6)
CASE = st.fixed_dictionaries({
    "texts": st.lists(desc_text(), min_size=1, max_size=3), "attrs": SELECTION, "unknown": st.sampled_from([None, None, "no_such_attribute", "lotz"]),
    "unknown_pos": st.integers(0, 6), "headers": st.sampled_from(["false", "true", "list", "dict", "none", "short_list", "long_list", "same_label_list"]),
    "existing": st.booleans(), "mode": st.sampled_from(["w", "a"]),
    "writer": st.sampled_from(["tracts_to_csv", "tracts_to_csv", "TractWriter", "TractWriter", "records"]),
    "plus_cols": st.booleans(), "uid": st.sampled_from([None, None, 0, 27]), "calls": st.sampled_from([1, 2, 3, 1, 2, 3, 0, -1]),      # 0: closed without any write(); -1: only write(None)
    "reopen": st.booleans(),          # TractWriter: close() and open() again between write() calls
    "level": st.sampled_from(["TractList", "PLSSDesc"]),      # tracts_to_csv / records through the container or through the description
    "write_form": st.sampled_from(["descs", "tractlist", "tracts", "generator", "mixed", "one_by_one", "descs_with_repeat", "tracts_with_repeat"]),   # what write() is handed
})


def flatten(v):
    if isinstance(v, dict):
        for k, x in v.items():
            yield k
            yield from flatten(x)
    elif isinstance(v, (list, tuple)):
        for x in v:
            yield from flatten(x)
    else:
        yield v


def cell_ok(cell, value):
    """Does the csv cell faithfully carry the attribute value?"""
    if value is None:
        return cell == ""
    if isinstance(value, (str, int, float, bool)):
        return cell == str(value)
    leaves = [str(x) for x in flatten(value)]
    if isinstance(value, (list, tuple)) and all(isinstance(x, str) for x in value):
        return cell == ", ".join(value)
    pos, residue = 0, ""
    for leaf in leaves:
        i = cell.find(leaf, pos)
        if i < 0:
            return False
        residue += cell[pos:i]
        pos = i + len(leaf)
    residue += cell[pos:]
    return not any(ch.isalnum() for ch in residue)


def expected_header(attrs, how):
    if how in ("false", "none"):
        return list(attrs)
    if how == "true":
        return [Tract.ATTRIBUTES.get(a, a) for a in attrs]
    if how == "list":
        return [f"col{i}" for i in range(len(attrs))]
    if how == "short_list":
        return [f"col{i}" for i in range(max(1, len(attrs) - 1))]
    if how == "long_list":
        return [f"col{i}" for i in range(len(attrs) + 2)]
    if how == "same_label_list":
        return ["x"] * len(attrs)
    return [{"trs": "TRS!", "desc": "Description?", "lots": "LOTS"}.get(a, a) for a in attrs]


def header_arg(attrs, how):
    if how in ("short_list", "long_list", "same_label_list"):
        return expected_header(attrs, how)          # a list of labels is written as given; it does not decide how many cells a row has
    return {"false": False, "none": None, "true": True, "list": [f"col{i}" for i in range(len(attrs))],
            "dict": {"trs": "TRS!", "desc": "Description?", "lots": "LOTS"}}[how]


_last = {}


def oracle(c):
    attrs = list(c["attrs"])
    if c["unknown"]:
        attrs.insert(min(c["unknown_pos"], len(attrs)), c["unknown"])
    descs = [PLSSDesc(t, parse_qq=True) for t in c["texts"]]
    tracts = [t for d in descs for t in d.tracts]
    tl = TractList(tracts)
    fails = []
    ctx = dict(attrs=attrs, writer=c["writer"], texts=c["texts"])

    def val(t, a):
        return getattr(t, a, f"{a}: n/a")

    _last["nt"] = any(isinstance(val(t, a), (list, tuple, dict)) and val(t, a) for t in tracts for a in attrs) or any('"' in x or "\n" in x for x in c["texts"])
    if c["writer"] == "records":
        for name, got in (("tracts_to_dict", tl.tracts_to_dict(attrs)), ("iter_to_dict", list(tl.iter_to_dict(attrs))),
                          ("PLSSDesc.tracts_to_dict", descs[0].tracts_to_dict(*attrs)), ("PLSSDesc.iter_to_dict", list(descs[0].iter_to_dict(*attrs)))):
            src = tracts if not name.startswith("PLSSDesc") else list(descs[0].tracts)
            if len(got) != len(src):
                fails.append(Failure(f"{name}:count", f"{name}: {len(got)} records for {len(src)} tracts", **ctx))
                continue
            for i, (rec, t) in enumerate(zip(got, src)):
                want = {a: val(t, a) for a in attrs}
                if list(rec.keys()) != list(dict.fromkeys(attrs)) or any(rec[a] != want[a] for a in attrs):
                    fails.append(Failure(f"{name}:values", f"{name}: record {i} is {rec}, expected {want}", **ctx))
                    break
        for name, got in (("tracts_to_list", tl.tracts_to_list(attrs)), ("iter_to_list", list(tl.iter_to_list(attrs))),
                          ("PLSSDesc.tracts_to_list", descs[0].tracts_to_list(attrs)), ("PLSSDesc.iter_to_list", list(descs[0].iter_to_list(attrs)))):
            src = tracts if not name.startswith("PLSSDesc") else list(descs[0].tracts)
            if len(got) != len(src):
                fails.append(Failure(f"{name}:count", f"{name}: {len(got)} records for {len(src)} tracts", **ctx))
                continue
            for i, (rec, t) in enumerate(zip(got, src)):
                want = [val(t, a) for a in attrs]
                if list(rec) != want:
                    fails.append(Failure(f"{name}:values", f"{name}: record {i} is {rec}, expected {want}", **ctx))
                    break
        # two streams consumed side by side, and a list export in the middle of a stream: each stream still gives every tract once
        pairs = list(zip(tl.iter_to_list(attrs), tl.iter_to_dict(attrs)))
        it = tl.iter_to_list(attrs)
        head = [next(it)] if tracts else []
        tl.tracts_to_list(attrs)
        interleaved = head + list(it)
        want_lists = [[val(t, a) for a in attrs] for t in tracts]
        if [list(p[0]) for p in pairs] != want_lists or [p[1] for p in pairs] != [{a: val(t, a) for a in attrs} for t in tracts]:
            fails.append(Failure("iter_side_by_side", f"zip(iter_to_list, iter_to_dict) gave {len(pairs)} records for {len(tracts)} tracts (or other values)", **ctx))
        if [list(r) for r in interleaved] != want_lists:
            fails.append(Failure("iter_interleaved_with_export", f"iter_to_list with a tracts_to_list() call after its first record gave {len(interleaved)} records for {len(tracts)} tracts", **ctx))
        # attribute names may be given separately, as one list, or mixed (a name followed by a list of names)
        if len(attrs) >= 2:
            for name, got in (("tracts_to_list(name, [names])", tl.tracts_to_list(attrs[0], list(attrs[1:]))),
                              ("tracts_to_dict(name, (names))", [list(r.values()) for r in tl.tracts_to_dict(attrs[0], tuple(attrs[1:]))]),
                              ("iter_to_list([name], name, ...)", list(tl.iter_to_list([attrs[0]], *attrs[1:]))),
                              ("PLSSDesc.tracts_to_list(name, [names])", descs[0].tracts_to_list(attrs[0], list(attrs[1:])))):
                src = tracts if not name.startswith("PLSSDesc") else list(descs[0].tracts)
                if len(dict.fromkeys(attrs)) != len(attrs) and "dict" in name:
                    continue
                if [list(r) for r in got] != [[val(t, a) for a in attrs] for t in src]:
                    fails.append(Failure("mixed_attribute_arguments", f"{name} with {attrs}: {len(got)} records {str(got)[:200]}", **ctx))
                    break
        one = tracts[0]
        if one.to_dict(*attrs) != {a: val(one, a) for a in attrs} or one.to_list(attrs) != [val(one, a) for a in attrs]:
            fails.append(Failure("tract_to_dict_list", f"Tract.to_dict/to_list disagree with the attributes", **ctx))
        return fails

    os.makedirs(WORK, exist_ok=True)
    tmp = tempfile.mkdtemp(prefix="case-", dir=WORK)
    try:
        fp = os.path.join(tmp, "out.csv")
        pre_rows = []
        if c["existing"]:
            with open(fp, "w", newline="") as fh:
                csv.writer(fh).writerow(["old", "file"])
            pre_rows = [["old", "file"]]
        new_file = not (c["existing"] and c["mode"] == "a")
        hdr = header_arg(attrs, c["headers"])
        exp_rows = []      # (tract, extra cells)
        if c["writer"] == "tracts_to_csv":
            if c.get("level") == "PLSSDesc":
                descs[0].tracts_to_csv(attrs, fp, c["mode"], nice_headers=hdr)
                exp_rows = [(t, []) for t in descs[0].tracts]
            else:
                tl.tracts_to_csv(attrs, fp, c["mode"], nice_headers=hdr)
                exp_rows = [(t, []) for t in tracts]
            exp_header = expected_header(attrs, c["headers"])
        else:
            plus = ["extra A", "extra, B"] if c["plus_cols"] else None
            w = TractWriter(attrs, fp, c["mode"], plus_cols=plus, nice_headers=hdr, uid=c["uid"])
            uid = c["uid"] if c["uid"] is not None else 0
            ncalls = c["calls"]
            if ncalls <= 0:
                # a writer that is closed without having written a tract leaves a new file with its header row (and an existing one alone)
                if ncalls == -1:
                    if w.write(None) not in (0, None):
                        fails.append(Failure("TractWriter:write_none", "write(None) reported rows", **ctx))
                chunks = []
            else:
                chunks = [descs[i::ncalls] for i in range(ncalls)]
            total_written = 0
            for ci, chunk in enumerate(chunks):
                if ci and c.get("reopen"):
                    w.close()
                    w.open()
                vals = ["x1", "y,2"] if c["plus_cols"] else None
                ts = [t for d in chunk for t in d.tracts]
                form = c.get("write_form", "descs")
                if form == "one_by_one" and ts:
                    # one write() per tract would give each its own UID: keep one call, but hand over a single Tract when there is one
                    objs = ts[0] if len(ts) == 1 else TractList(ts)
                elif form == "tractlist":
                    objs = TractList(ts)
                elif form == "tracts":
                    objs = list(ts)
                elif form == "generator":
                    objs = (d for d in chunk)
                elif form == "descs_with_repeat" and chunk:
                    # the same description object named twice in one batch: written twice
                    objs = list(chunk) + [chunk[0]]
                    ts = ts + list(chunk[0].tracts)
                elif form == "tracts_with_repeat" and ts:
                    objs = list(ts) + [ts[0], ts[-1]]
                    ts = ts + [ts[0], ts[-1]]
                elif form == "mixed":
                    objs = [chunk[0]] + [t for d in chunk[1:] for t in d.tracts] if chunk else []
                else:
                    objs = chunk if len(chunk) != 1 else chunk[0]
                n = w.write(objs, plus_cols=vals)
                if n != len(ts):
                    fails.append(Failure("TractWriter:write_return", f"write() returned {n} for {len(ts)} tracts", **ctx))
                for k, t in enumerate(ts, start=1):
                    extra = list(vals or [])
                    if c["uid"] is not None:
                        extra.append(f"{str(uid).rjust(4, '0')}.{alpha(k)}-{alpha(len(ts))}")
                    exp_rows.append((t, extra))
                uid += 1
            w.close()
            exp_header = expected_header(attrs, c["headers"]) + (plus or []) + (["UID"] if c["uid"] is not None else [])
        with open(fp, newline="") as fh:
            rows = list(csv.reader(fh))
        if c["mode"] == "a":
            body = rows[len(pre_rows):]
            if rows[:len(pre_rows)] != pre_rows:
                fails.append(Failure(f"{c['writer']}:append_clobbered", f"mode 'a' changed the existing rows: {rows[:2]}", **ctx))
        else:
            body = rows
        if new_file:
            if not body or body[0] != exp_header:
                fails.append(Failure(f"{c['writer']}:header", f"first row {body[:1]}, expected header {exp_header}", **ctx))
            body = body[1:]
        if len(body) != len(exp_rows):
            fails.append(Failure(f"{c['writer']}:row_count", f"{len(body)} data rows for {len(exp_rows)} tracts (new_file={new_file})", **ctx))
        else:
            for i, (row, (t, extra)) in enumerate(zip(body, exp_rows)):
                if len(row) != len(attrs) + len(extra):
                    fails.append(Failure(f"{c['writer']}:row_width", f"row {i} has {len(row)} cells, expected {len(attrs) + len(extra)}", **ctx))
                    break
                bad = [(a, row[j], val(t, a)) for j, a in enumerate(attrs) if not cell_ok(row[j], val(t, a))]
                if bad:
                    a, cell, v = bad[0]
                    fails.append(Failure(f"{c['writer']}:cell:{a}", f"row {i} ({t.trs}) cell {a!r} is {cell!r}, attribute is {v!r}", **ctx))
                    break
                # the plus_cols values follow the attributes (the UID cell, if any, is only counted: its format is not part of the property)
                n_plus = len(extra) - (1 if (c["writer"] == "TractWriter" and c["uid"] is not None) else 0)
                if row[len(attrs):len(attrs) + n_plus] != extra[:n_plus]:
                    fails.append(Failure(f"{c['writer']}:extra_cols", f"row {i} extra cells {row[len(attrs):]}, expected {extra[:n_plus]}", **ctx))
                    break
    finally:
        shutil.rmtree(tmp, ignore_errors=True)
    return fails


def alpha(num):
    return ((num - 1) // 26 > 0) * chr((num - 1) // 26 + ord("a") - 1) + chr((num - 1) % 26 + ord("a"))


def classes(c):
    out = [f"writer={c['writer']}", f"headers={c['headers']}", f"mode={c['mode']}", "existing" if c["existing"] else "new"]
    if c["writer"] == "TractWriter":
        out.append(f"write_form={c.get('write_form', 'descs')}")
    else:
        out.append(f"level={c.get('level', 'TractList')}")
    if c["unknown"]:
        out.append("unknown_attribute")
    if c["writer"] == "TractWriter" and c["calls"] <= 0:
        out.append("no_write_call")
    if c.get("reopen") and c["writer"] == "TractWriter" and c["calls"] > 1:
        out.append("reopened")
    if _last.get("nt"):
        out.append("nontrivial")
    return out


FIXED_TEXTS = ['T154N-R97W Sec 14: Lot 1(40.02), Lot 2(39.98), Lot 1, NE/4, NE/4, less and except the "Jones #1" wellbore\nSec 15 - 13: Lots 5 - 1,\nS/2N/2',
               "That part of Sec 14, T154N-R97W", "T154-R97 Sec 1: ALL, Sec 2: N/2 of Lot 4", "no twprge here"]


def enum_attrs(tier):
    cases = []
    for a in ATTRS:
        for writer in ("tracts_to_csv", "TractWriter", "records"):
            for hdr in (("false", "true") if tier == "quick" else ("false", "true", "list", "dict")):
                cases.append({"texts": FIXED_TEXTS, "attrs": [a], "unknown": None, "unknown_pos": 0, "headers": hdr, "existing": False,
                              "mode": "w", "writer": writer, "plus_cols": False, "uid": None, "calls": 1})
    cases.append({"texts": FIXED_TEXTS, "attrs": list(ATTRS), "unknown": "nope", "unknown_pos": 3, "headers": "true", "existing": True,
                  "mode": "a", "writer": "TractWriter", "plus_cols": True, "uid": 27, "calls": 2})
    cases.append({"texts": FIXED_TEXTS, "attrs": list(ATTRS), "unknown": "nope", "unknown_pos": 3, "headers": "dict", "existing": True,
                  "mode": "a", "writer": "tracts_to_csv", "plus_cols": False, "uid": None, "calls": 1})
    return cases


def render(c):
    return {k: c.get(k) for k in ("texts", "attrs", "unknown", "headers", "existing", "mode", "writer", "plus_cols", "uid", "calls", "reopen", "level", "write_form")}


SUBS = [
    Sub("every_attribute", oracle, enumerate=enum_attrs, nontrivial=lambda c: bool(_last.get("nt")), classes=classes, render=render, exhaustive=True,
        shards={"quick": 6, "thorough": 8}),
    Sub("random", oracle, strategy=lambda tier: CASE, nontrivial=lambda c: bool(_last.get("nt")), classes=classes, render=render,
        n={"quick": 400, "thorough": 5000}, shards={"quick": 8, "thorough": 16},
        essential=("writer=tracts_to_csv", "writer=TractWriter", "writer=records", "level=PLSSDesc", "write_form=generator", "write_form=mixed", "headers=list", "headers=dict", "headers=short_list", "headers=same_label_list", "no_write_call", "mode=a", "existing", "unknown_attribute", "reopened", "nontrivial")),
]
