"""C13 - configuration round-trips through text and has a single precedence order."""
import collections

from hypothesis import strategies as st

from vlib.core import Sub, Failure, HarnessError
from vlib import env, configs

pytrs = env.import_pytrs()
from pytrs import PLSSDesc, Tract, Config, MasterConfig  # noqa: E402

ID = "C13"
RULE = (
    "(roundtrip) every assignment of the 16 settings (booleans in {unset, True, False}, directions, five layouts, integer "
    "depths 1..4) rendered as config text in varying syntax (separators, '.'/'=' , bare or long direction/layout forms, "
    "explicit True, rotated order), as a dict and as a Config object; (unknown) identifiers that are no setting, layout or "
    "direction letter, with and without a value; (channels) for every setting x object type {PLSSDesc, Tract} a generated "
    "witness description on which the setting changes the result, evaluated through {config at creation, .config then "
    "parse(), keyword to parse()/parse_tracts()/from_twprgesec()/set_twprgesec()} plus conflict pairs keyword-vs-config "
    "and config-vs-MasterConfig. Non-trivial: (roundtrip) >= 2 settings set; (channels) the setting changed the outcome. "
    "Distinct = distinct case."
)
ASSUMPTIONS = [
    "wait_to_parse acts at creation only; it is checked by whether the object was parsed at creation (enumerated sub-check), not through the witness texts of the other settings.",
    "A channel that does not exist for a setting (e.g. no suppress_lot_divs keyword on PLSSDesc.parse) is replaced by the documented nearest one (parse_tracts keyword) or skipped; the grid cell is then reported as n/a.",
]

ATTRS = configs.ALL


def cfg_attrs(c):
    return {a: getattr(c, a) for a in ATTRS}


RT_CASE = st.fixed_dictionaries({"cfg": configs.config_values(), "style": configs.STYLE})


def oracle_roundtrip(c):
    cfg, style = c["cfg"], c["style"]
    text = configs.to_text(cfg, style)
    want = {a: cfg.get(a) for a in ATTRS}
    fails = []
    c1 = Config(text)
    if cfg_attrs(c1) != want:
        diff = {a: (cfg_attrs(c1)[a], want[a]) for a in ATTRS if cfg_attrs(c1)[a] != want[a]}
        return [Failure("text_to_config", f"Config({text!r}) attributes differ from what was written: {diff}", text=text)]
    t1 = c1.decompile_to_text()
    c2 = Config(t1)
    if cfg_attrs(c2) != want:
        diff = {a: (cfg_attrs(c2)[a], want[a]) for a in ATTRS if cfg_attrs(c2)[a] != want[a]}
        fails.append(Failure("roundtrip", f"Config({text!r}) -> {t1!r} -> attributes changed: {diff}", text=text, decompiled=t1))
    if c2.decompile_to_text() != t1:
        fails.append(Failure("text_not_idempotent", f"decompile twice: {t1!r} then {c2.decompile_to_text()!r}", text=text))
    c3 = Config.from_dict(dict(cfg))
    if cfg_attrs(c3) != want:
        fails.append(Failure("from_dict", f"Config.from_dict({cfg}) attributes {cfg_attrs(c3)}", cfg=cfg))
    c4 = Config(c1)
    if cfg_attrs(c4) != want:
        fails.append(Failure("from_config_object", f"Config(Config({text!r})) attributes {cfg_attrs(c4)}", text=text))
    c5 = Config.from_kwargs(**dict(cfg))
    if cfg_attrs(c5) != want:
        fails.append(Failure("from_kwargs", f"Config.from_kwargs({cfg}) attributes {cfg_attrs(c5)}", cfg=cfg))
    return fails


# ---------------------------------------------------------------------------
LEGAL = set(ATTRS) | set(configs.LAYOUTS) | set("nsewNSEW")
NEAR = ["clean_q", "cleanqq", "parseqq", "segments", "qq_depths", "layout_", "trs_desc", "TRS_DESC", "copyall", "default_n", "north",
        "sec_colon", "break_halve", "ocr", "secwithin", "wait", "qq_depth_mid", "suppress_lot_div", "x", "nn", "we"]
NAME = st.one_of(st.sampled_from(NEAR), st.text(alphabet="abcdefghijklmnopqrstuvwxyz_", min_size=2, max_size=12)).filter(lambda s: s not in LEGAL)
UNK_CASE = st.fixed_dictionaries({
    "name": NAME, "value": st.sampled_from([None, "True", "False", "2", "n", "TRS_desc"]), "eq": st.sampled_from([".", "="]),
    "others": configs.config_values(exclude=("wait_to_parse",)), "pos": st.integers(0, 3), "target": st.sampled_from(["Config", "PLSSDesc", "Tract", "setter"]),
})


def oracle_unknown(c):
    item = c["name"] if c["value"] is None else f"{c['name']}{c['eq']}{c['value']}"
    parts = [p for p in configs.to_text(c["others"]).split(",") if p]
    parts.insert(min(c["pos"], len(parts)), item)
    text = ",".join(parts)
    try:
        if c["target"] == "Config":
            Config(text)
        elif c["target"] == "PLSSDesc":
            PLSSDesc("T154N-R97W Sec 14: NE/4", config=text)
        elif c["target"] == "Tract":
            Tract("NE/4", config=text)
        else:
            d = PLSSDesc("T154N-R97W Sec 14: NE/4")
            d.config = text
    except ValueError:
        return []
    except Exception as exc:  # noqa
        return [Failure("unknown_setting_wrong_exception", f"{c['target']}({text!r}) raised {type(exc).__name__}: {exc!s:.150}, documented ValueError", text=text)]
    return [Failure("unknown_setting_accepted", f"{c['target']}({text!r}): unknown setting {item!r} was accepted", text=text)]


# ---------------------------------------------------------------------------
# channel differential

def snap_plss(d, tracts=None):
    tr = d.tracts if tracts is None else tracts
    return {"tracts": [(t.trs, t.desc, tuple(t.lots), tuple(t.qqs)) for t in tr],
            "flags": sorted(map(str, d.flags)) if tracts is None else None, "layout": d.current_layout if tracts is None else None}


def snap_tract(t):
    return {"trs": t.trs, "pp": t.pp_desc, "lots": tuple(t.lots), "qqs": tuple(t.qqs), "flags": sorted(map(str, t.flags))}


W = {  # setting -> (value, witness text template, needs parse_qq)
    "default_ns": ("s", "T{t}-R{r}W Sec {s}: NE/4", False),
    "default_ew": ("e", "T{t}N-R{r} Sec {s}: NE/4", False),
    "layout": (None, "T{t}N-R{r}W Sec {s}: NE/4, Sec {s2}: W/2", False),
    "parse_qq": (True, "T{t}N-R{r}W Sec {s}: {aq}", False),
    "clean_qq": (True, "T{t}N-R{r}W Sec {s}: NE, SW", True),
    "sec_colon_required": (True, "T{t}N-R{r}W Sec {s} NE/4, Sec {s2} W/2", False),
    "sec_colon_cautious": (True, "T{t}N-R{r}W Sec {s} NE/4, Sec {s2} W/2", False),
    "suppress_lot_divs": (True, "T{t}N-R{r}W Sec {s}: N/2 of Lot {lot}, {aq}", True),
    "ocr_scrub": (True, "T{tocr}N-R{r}W Sec {s}: NE/4", False),
    "segment": (True, "T{t}N-R{r}W Sec {s}: NE/4\nT{t2}N-R{r}W W/2 of Sec {s2}", False),
    "qq_depth": (1, "T{t}N-R{r}W Sec {s}: {aq3}", True),
    "qq_depth_min": (3, "T{t}N-R{r}W Sec {s}: {aq}", True),
    "qq_depth_max": (2, "T{t}N-R{r}W Sec {s}: {aq3}", True),
    "break_halves": (True, "T{t}N-R{r}W Sec {s}: {h3}", True),
    "sec_within": (True, "That part of Sec {s} lying north of the river, T{t}N-R{r}W", False),
}
PLSS_KW = {"default_ns", "default_ew", "layout", "parse_qq", "clean_qq", "sec_colon_cautious", "sec_colon_required", "segment",
           "ocr_scrub", "sec_within", "qq_depth_min", "qq_depth_max", "qq_depth", "break_halves"}
TRACTS_KW = {"clean_qq", "suppress_lot_divs", "qq_depth_min", "qq_depth_max", "qq_depth", "break_halves"}

FILL = st.fixed_dictionaries({
    "t": st.integers(100, 160), "t2": st.integers(161, 199), "r": st.integers(10, 110), "s": st.integers(1, 17), "s2": st.integers(18, 36),
    "lot": st.integers(1, 9), "aq": st.sampled_from(["NE/4", "N/2SW/4", "W/2", "SE/4NW/4"]),
    "aq3": st.sampled_from(["N/2NE/4NE/4", "S/2SW/4SE/4", "NE/4NW/4SW/4"]), "h3": st.sampled_from(["S/2NW/4NE/4", "E/2SE/4SW/4", "N/2N/2NE/4"]),
    "layout_val": st.sampled_from(["copy_all", "desc_STR", "TR_desc_S", "S_desc_TR"]),
})
PLSS_CASE = st.fixed_dictionaries({"setting": st.sampled_from(sorted(W)), "fill": FILL,
                                   "conflict": st.sampled_from(["none", "none", "kw_over_config", "config_over_master"])})

_last = {}


def ocr_num(t):
    return str(t).replace("1", "I", 1).replace("5", "S")


def cfg_item(setting, value):
    if value is True:
        return setting
    if setting in ("default_ns", "default_ew"):
        return value
    if setting == "layout":
        return value
    return f"{setting}.{value}"


def oracle_plss(c):
    s = c["setting"]
    value, tmpl, need_pq = W[s]
    f = dict(c["fill"])
    f["tocr"] = ocr_num(f["t"]) if ("1" in str(f["t"]) or "5" in str(f["t"])) else "I" + str(f["t"])[1:]
    if s == "ocr_scrub":
        f["t"] = int(f["tocr"].replace("I", "1").replace("S", "5"))
    if s == "layout":
        value = f["layout_val"]
    text = tmpl.format(**f)
    pq = "parse_qq" if need_pq else ""
    join = lambda *xs: ",".join(x for x in xs if x)  # noqa: E731
    item = cfg_item(s, value)
    fails = []
    base = snap_plss(PLSSDesc(text, config=pq))
    # channel 1: config at creation
    d1 = PLSSDesc(text, config=join(pq, item))
    s1 = snap_plss(d1)
    # channel 2: .config = ... then parse()
    d2 = PLSSDesc(text, wait_to_parse=True)
    d2.config = join(pq, item)
    d2.parse()
    s2 = snap_plss(d2)
    ctx = dict(text=text, setting=s, value=value)
    s3 = None
    if s in PLSS_KW:
        d3 = PLSSDesc(text, config=pq, wait_to_parse=True)
        d3.parse(**{s: value})
        s3 = snap_plss(d3)
    # channel 1b: the same settings as a Config object
    cfg_obj = Config(join(pq, item))
    chans = {"config at creation": s1, ".config= then parse()": s2, "Config object at creation": snap_plss(PLSSDesc(text, config=cfg_obj))}
    if s3 is not None:
        chans[f"parse({s}={value!r})"] = s3
    # a Config object handed to one description is not changed by that description's keyword overrides:
    # the next description created from the same object reads like one created from the equal text
    user = PLSSDesc(text, config=cfg_obj, wait_to_parse=True)
    user.parse(parse_qq=True, clean_qq=True, qq_depth=1, break_halves=True, commit=bool(c["fill"].get("lot", 0) % 2))
    user.parse_tracts(qq_depth_min=1, suppress_lot_divs=True)
    chans["Config object used before by another description with keyword overrides"] = snap_plss(PLSSDesc(text, config=cfg_obj))
    if s in PLSS_KW:
        cfg0 = Config(pq)
        PLSSDesc(text, config=cfg0, wait_to_parse=True).parse(**{s: value})
        after = snap_plss(PLSSDesc(text, config=cfg0))
        if after != base:
            fails.append(Failure(f"keyword_leaks_into_config_object:{s}", f"{s}={value!r} on {text!r}: after one description was parsed with parse({s}={value!r}) its Config object ({pq!r}) gives {after['tracts']} {after['flags']} to the next description, the equal text gives {base['tracts']} {base['flags']}",
                                 text=text, setting=s, value=value))
    _last["bit"] = any(v != base for v in chans.values())
    if not _last["bit"]:
        return []
    # the setting makes a difference through at least one channel: every channel must then give that same result
    ref_name = next(k for k, v in chans.items() if v != base)
    ref = chans[ref_name]
    for name, v in chans.items():
        if v != ref:
            kind = "keyword" if name.startswith("parse(") else ("config_assign" if name.startswith(".config") else ("config_object" if name.startswith("Config object") else "config_at_creation"))
            fails.append(Failure(f"plss_channel_{kind}:{s}", f"{s}={value!r} on {text!r}: {ref_name} gives {ref['tracts']} {ref['flags']} [{ref['layout']}], but {name} gives {v['tracts']} {v['flags']} [{v['layout']}]", **ctx))
    s1 = ref
    if s in PLSS_KW:
        # not committed: same tracts returned, object untouched
        d4 = PLSSDesc(text, config=pq)
        ret = d4.parse(commit=False, **{s: value})
        if snap_plss(d4, ret)["tracts"] != s1["tracts"]:
            fails.append(Failure(f"plss_channel_keyword_nocommit:{s}", f"{s}={value!r} on {text!r}: parse(commit=False, {s}={value!r}) returns {snap_plss(d4, ret)['tracts']}, config gives {s1['tracts']}", **ctx))
    if s in TRACTS_KW:
        d5 = PLSSDesc(text, config=pq)
        d5.parse_tracts(**{s: value})
        t5 = snap_plss(d5)["tracts"]
        if t5 != s1["tracts"]:
            fails.append(Failure(f"plss_channel_parse_tracts:{s}", f"{s}={value!r} on {text!r}: parse_tracts({s}={value!r}) gives {t5}, config gives {s1['tracts']}", **ctx))
        d6 = PLSSDesc(text, config=pq)
        d6.parse_tracts(config=item)
        if snap_plss(d6)["tracts"] != s1["tracts"]:
            fails.append(Failure(f"plss_channel_parse_tracts_config:{s}", f"{s}={value!r} on {text!r}: parse_tracts(config={item!r}) gives {snap_plss(d6)['tracts']}, config gives {s1['tracts']}", **ctx))
    if s in TRACTS_KW and s in PLSS_KW and need_pq:
        # a tract-level keyword of parse() belongs to the tracts that parse creates: parsing them later gives what the configured setting gives
        d13 = PLSSDesc(text, wait_to_parse=True)
        d13.parse(**{s: value})
        d13.parse_tracts()
        ref13 = PLSSDesc(text, config=item)
        ref13.parse_tracts()
        if snap_plss(d13)["tracts"] != snap_plss(ref13)["tracts"]:
            fails.append(Failure(f"plss_keyword_not_kept_for_later_parse_tracts:{s}", f"{s}={value!r} on {text!r}: parse({s}={value!r}) then parse_tracts() gives {snap_plss(d13)['tracts']}, config {item!r} then parse_tracts() gives {snap_plss(ref13)['tracts']}", **ctx))
    # Config objects built without any text
    built = {k: v for k, v in (("parse_qq", True if need_pq else None), (s, value)) if v is not None}
    for how, cobj in (("Config.from_kwargs", Config.from_kwargs(**built)), ("Config.from_dict", Config.from_dict(dict(built)))):
        sb = snap_plss(PLSSDesc(text, config=cobj))
        if sb != s1:
            fails.append(Failure(f"plss_channel_config_built:{s}", f"{s}={value!r} on {text!r}: {how}({built}) gives {sb['tracts']} {sb['flags']}, the config text gives {s1['tracts']} {s1['flags']}", **ctx))
            break
    if s in TRACTS_KW and isinstance(value, bool):
        # parse_tracts(setting=False) switches off what the configuration switched on
        d10 = PLSSDesc(text, config=join(pq, item))
        d10.parse_tracts(**{s: False})
        if snap_plss(d10)["tracts"] != base["tracts"]:
            fails.append(Failure(f"parse_tracts_false_does_not_win:{s}", f"config {item} + parse_tracts({s}=False) on {text!r} gives {snap_plss(d10)['tracts']}, expected the baseline {base['tracts']}", **ctx))
    if s == "layout":
        # the layout keyword at creation beats a layout named in the config given at creation (as parse(layout=) does)
        other = "copy_all" if value != "copy_all" else "TRS_desc"
        for how, d11 in (("layout keyword over config text", PLSSDesc(text, layout=value, config=join(pq, other))),
                         ("layout keyword over Config object", PLSSDesc(text, layout=value, config=Config(join(pq, f"layout.{other}"))))):
            if snap_plss(d11) != s1:
                fails.append(Failure("plss_init_layout_keyword_does_not_win", f"PLSSDesc({text!r}, layout={value!r}, config={other!r}) [{how}] gives {snap_plss(d11)['tracts']} [{snap_plss(d11)['layout']}], "
                                     f"layout={value!r} alone gives {s1['tracts']} [{s1['layout']}]", **ctx))
                break
        d12 = PLSSDesc(text, config=join(pq, other), wait_to_parse=True)
        d12.parse(layout=value)
        if snap_plss(d12)["tracts"] != s1["tracts"]:
            fails.append(Failure("plss_parse_layout_keyword_does_not_win", f"config {other} + parse(layout={value!r}) on {text!r} gives {snap_plss(d12)['tracts']}, expected {s1['tracts']}", **ctx))
    if s == "segment":
        # a layout keyword that overrides a configured copy_all overrides what copy_all implies as well (copy_all is never segmented)
        ref13 = snap_plss(PLSSDesc(text, config=join(pq, "TRS_desc,segment")))
        d13 = PLSSDesc(text, config=join(pq, "copy_all,segment"), wait_to_parse=True)
        d13.parse(layout="TRS_desc")
        d14 = PLSSDesc(text, layout="TRS_desc", config=join(pq, "copy_all,segment"))
        d15 = PLSSDesc(text, config=join(pq, "copy_all,segment"))
        d15.config = "TRS_desc"
        d15.parse()
        for how, dd in (("config copy_all,segment + parse(layout='TRS_desc')", d13), ("PLSSDesc(layout='TRS_desc', config='copy_all,segment')", d14),
                        ("config copy_all,segment, then .config = 'TRS_desc', parse()", d15)):
            if snap_plss(dd)["tracts"] != ref13["tracts"]:
                fails.append(Failure("layout_over_copy_all_with_segment", f"{how} on {text!r} gives {snap_plss(dd)['tracts']}, config 'TRS_desc,segment' gives {ref13['tracts']}", **ctx))
                break
    # conflicts
    if c["conflict"] == "kw_over_config" and s in PLSS_KW and isinstance(value, bool):
        d7 = PLSSDesc(text, config=join(pq, f"{s}.False"), wait_to_parse=True)
        d7.parse(**{s: True})
        if snap_plss(d7) != s1:
            fails.append(Failure(f"plss_keyword_does_not_win:{s}", f"config {s}.False + parse({s}=True) on {text!r} gives {snap_plss(d7)['tracts']}, expected the {s}=True result {s1['tracts']}", **ctx))
        d8 = PLSSDesc(text, config=join(pq, s), wait_to_parse=True)
        d8.parse(**{s: False})
        if snap_plss(d8) != base:
            fails.append(Failure(f"plss_keyword_false_does_not_win:{s}", f"config {s} + parse({s}=False) on {text!r} gives {snap_plss(d8)['tracts']} {snap_plss(d8)['flags']}, expected the baseline {base['tracts']} {base['flags']}", **ctx))
    if c["conflict"] == "kw_over_config" and s in ("default_ns", "default_ew"):
        other = {"s": "n", "e": "w"}[value]
        d9 = PLSSDesc(text, config=other, wait_to_parse=True)
        d9.parse(**{s: value})
        if snap_plss(d9)["tracts"] != s1["tracts"]:
            fails.append(Failure(f"plss_keyword_does_not_win:{s}", f"config {other} + parse({s}={value!r}) on {text!r} gives {snap_plss(d9)['tracts']}, expected {s1['tracts']}", **ctx))
    if c["conflict"] == "config_over_master" and s in ("default_ns", "default_ew"):
        old = (MasterConfig.default_ns, MasterConfig.default_ew)
        try:
            # MasterConfig says the opposite of the config string: the config string wins
            if s == "default_ns":
                MasterConfig.default_ns = "n"
            else:
                MasterConfig.default_ew = "w"
            dm = PLSSDesc(text, config=item)
            if snap_plss(dm)["tracts"] != s1["tracts"]:
                fails.append(Failure(f"config_does_not_beat_master:{s}", f"MasterConfig opposite + config {item} on {text!r} gives {snap_plss(dm)['tracts']}", **ctx))
            if s == "default_ns":
                MasterConfig.default_ns = "s"
            else:
                MasterConfig.default_ew = "e"
            dm2 = PLSSDesc(text)
            if snap_plss(dm2)["tracts"] != s1["tracts"]:
                fails.append(Failure(f"master_default_ignored:{s}", f"MasterConfig.{s}={value!r} with no config on {text!r} gives {snap_plss(dm2)['tracts']}, expected {s1['tracts']}", **ctx))
            opp = {"s": "n", "e": "w"}[value]
            dm3 = PLSSDesc(text, config=opp)
            if snap_plss(dm3)["tracts"] != base["tracts"]:
                fails.append(Failure(f"config_does_not_beat_master:{s}", f"MasterConfig.{s}={value!r} + config {opp} on {text!r} gives {snap_plss(dm3)['tracts']}, expected {base['tracts']}", **ctx))
        finally:
            MasterConfig.default_ns, MasterConfig.default_ew = old
    return fails


# Tract --------------------------------------------------------------------

TW = {
    "parse_qq": (True, "{aq}"), "clean_qq": (True, "NE, SW"), "suppress_lot_divs": (True, "N/2 of Lot {lot}, {aq}"),
    "qq_depth": (1, "{aq3}"), "qq_depth_min": (3, "{aq}"), "qq_depth_max": (2, "{aq3}"), "break_halves": (True, "{h3}"),
    "default_ns": ("s", "{aq}"), "default_ew": ("e", "{aq}"), "ocr_scrub": (True, "{aq}"),
}
TRACT_KW = {"clean_qq", "suppress_lot_divs", "qq_depth_min", "qq_depth_max", "qq_depth", "break_halves"}
TRACT_CASE = st.fixed_dictionaries({"setting": st.sampled_from(sorted(TW)), "fill": FILL, "conflict": st.sampled_from(["none", "kw_over_config"])})


def oracle_tract(c):
    s = c["setting"]
    value, tmpl = TW[s]
    f = c["fill"]
    desc = tmpl.format(**f)
    item = cfg_item(s, value)
    fails = []
    ctx = dict(desc=desc, setting=s, value=value)
    if s in ("default_ns", "default_ew", "ocr_scrub"):
        twp, rge = (f["t"], f["r"])
        if s == "ocr_scrub":
            twp = ("I" + str(f["t"])[1:]) + "n"
            want_twp = "1" + str(f["t"])[1:] + "n"
        a = Tract.from_twprgesec(desc, twp, rge, f["s"], config=item)
        b = Tract(desc, config=item)
        b.set_twprgesec(twp, rge, f["s"])
        base = Tract.from_twprgesec(desc, twp, rge, f["s"])
        _last["bit"] = a.trs != base.trs
        if a.trs == base.trs:
            return []
        if b.trs != a.trs:
            fails.append(Failure(f"tract_channel_set_twprgesec:{s}", f"{s}: from_twprgesec(config={item!r}) -> {a.trs}, Tract(config=).set_twprgesec -> {b.trs}", **ctx))
        bb = Tract(desc)
        bb.config = item
        bb.set_twprgesec(twp, rge, f["s"])
        if bb.trs != a.trs:
            fails.append(Failure(f"tract_channel_config_assign:{s}", f"{s}: .config = {item!r} then set_twprgesec -> {bb.trs}, expected {a.trs}", **ctx))
        if s in ("default_ns", "default_ew"):
            k = Tract.from_twprgesec(desc, twp, rge, f["s"], **{s: value})
            k2 = Tract(desc)
            k2.set_twprgesec(twp, rge, f["s"], **{s: value})
            if k.trs != a.trs or k2.trs != a.trs:
                fails.append(Failure(f"tract_channel_keyword:{s}", f"{s}: keyword gives {k.trs} / {k2.trs}, config gives {a.trs}", **ctx))
            # a keyword for one axis leaves the other axis to the configuration
            other_axis = "default_ew" if s == "default_ns" else "default_ns"
            other_val = "e" if s == "default_ns" else "s"
            bare_t, bare_r = str(f["t"]), str(f["r"])
            x1 = Tract(desc, config=other_val)
            x1.set_twprgesec(bare_t, bare_r, f["s"], **{s: value})
            x2 = Tract.from_twprgesec(desc, bare_t, bare_r, f["s"], config=other_val, **{s: value})
            want_x = Tract.from_twprgesec(desc, bare_t, bare_r, f["s"], **{s: value, other_axis: other_val}).trs
            if x1.trs != want_x or x2.trs != want_x:
                fails.append(Failure(f"tract_keyword_one_axis_config_other:{s}", f"config {other_val!r} + keyword {s}={value!r}: set_twprgesec gives {x1.trs}, from_twprgesec gives {x2.trs}, expected {want_x}", **ctx))
            opp = {"s": "n", "e": "w"}[value]
            k3 = Tract.from_twprgesec(desc, twp, rge, f["s"], config=opp, **{s: value})
            if k3.trs != a.trs:
                fails.append(Failure(f"tract_keyword_does_not_win:{s}", f"config {opp} + keyword {s}={value!r} gives {k3.trs}, expected {a.trs}", **ctx))
        else:
            k2 = Tract(desc)
            k2.set_twprgesec(twp, rge, f["s"], ocr_scrub=True)
            if k2.trs != a.trs:
                fails.append(Failure("tract_channel_keyword:ocr_scrub", f"set_twprgesec(ocr_scrub=True) gives {k2.trs}, config gives {a.trs}", **ctx))
        return fails
    pq = "" if s == "parse_qq" else "parse_qq"
    join = lambda *xs: ",".join(x for x in xs if x)  # noqa: E731
    base = snap_tract(Tract(desc, config=pq))
    s1 = snap_tract(Tract(desc, config=join(pq, item)))
    t2 = Tract(desc)
    t2.config = join(pq, item)
    t2.parse()
    s2 = snap_tract(t2)
    s3 = None
    if s in TRACT_KW:
        t3 = Tract(desc)
        t3.parse(**{s: value})
        s3 = snap_tract(t3)
    _last["bit"] = s1 != base or s2 != base or (s3 is not None and s3 != base)
    if not _last["bit"]:
        return []
    if s1 == base:
        fails.append(Failure(f"tract_channel_config_at_creation:{s}", f"{s}={value!r} on {desc!r} has no effect through config at creation ({s1}) but does through another channel ({s2} / {s3})", **ctx))
        return fails
    if s2 != s1:
        fails.append(Failure(f"tract_channel_config_assign:{s}", f"{s}={value!r} on {desc!r}: config at creation {s1}, .config= then parse() {s2}", **ctx))
    # the same settings as a Config object; the object is not changed by the keyword overrides of the tract that used it
    cfg_obj = Config(join(pq, item))
    so = snap_tract(Tract(desc, config=cfg_obj))
    if so != s1:
        fails.append(Failure(f"tract_channel_config_object:{s}", f"{s}={value!r} on {desc!r}: config text gives {s1}, the equal Config object gives {so}", **ctx))
    user = Tract(desc, config=cfg_obj)
    user.parse(clean_qq=True, qq_depth=1, break_halves=True, suppress_lot_divs=True, commit=bool(f.get("lot", 0) % 2))
    so2 = snap_tract(Tract(desc, config=cfg_obj))
    if so2 != s1:
        fails.append(Failure(f"tract_config_object_changed_by_use:{s}", f"{s}={value!r} on {desc!r}: after another tract used the Config object with keyword overrides it gives {so2}, expected {s1}", **ctx))
    if s == "parse_qq":
        t3 = Tract(desc, parse_qq=True)
        if snap_tract(t3) != s1:
            fails.append(Failure("tract_channel_keyword:parse_qq", f"Tract(parse_qq=True) {snap_tract(t3)} vs config {s1}", **ctx))
        t4 = Tract(desc, config="parse_qq.False", parse_qq=True)
        if snap_tract(t4) != s1:
            fails.append(Failure("tract_keyword_does_not_win:parse_qq", f"config parse_qq.False + parse_qq=True gives {snap_tract(t4)}", **ctx))
    if s in TRACT_KW:
        t3 = Tract(desc)
        t3.parse(**{s: value})
        if snap_tract(t3) != s1:
            fails.append(Failure(f"tract_channel_keyword:{s}", f"{s}={value!r} on {desc!r}: config gives {s1}, parse({s}={value!r}) gives {snap_tract(t3)}", **ctx))
        t5 = Tract(desc)
        ret = t5.parse(commit=False, **{s: value})
        if list(ret) != list(s1["lots"]) + list(s1["qqs"]):
            fails.append(Failure(f"tract_channel_keyword_nocommit:{s}", f"{s}={value!r} on {desc!r}: parse(commit=False) returns {ret}, config gives {s1['lots']} + {s1['qqs']}", **ctx))
        if c["conflict"] == "kw_over_config" and isinstance(value, bool):
            t6 = Tract(desc, config=f"{s}.False")
            t6.parse(**{s: True})
            if snap_tract(t6) != s1:
                fails.append(Failure(f"tract_keyword_does_not_win:{s}", f"config {s}.False + parse({s}=True) on {desc!r} gives {snap_tract(t6)}, expected {s1}", **ctx))
            t7 = Tract(desc, config=s)
            t7.parse(**{s: False})
            if snap_tract(t7) != base:
                fails.append(Failure(f"tract_keyword_false_does_not_win:{s}", f"config {s} + parse({s}=False) on {desc!r} gives {snap_tract(t7)}, expected baseline {base}", **ctx))
        if c["conflict"] == "kw_over_config" and isinstance(value, int) and not isinstance(value, bool):
            other = {"qq_depth": 2, "qq_depth_min": 1, "qq_depth_max": 3}[s]
            t6 = Tract(desc, config=f"{s}.{other}")
            t6.parse(**{s: value})
            if (tuple(t6.lots), tuple(t6.qqs)) != (s1["lots"], s1["qqs"]):
                fails.append(Failure(f"tract_keyword_does_not_win:{s}", f"config {s}.{other} + parse({s}={value}) on {desc!r} gives {t6.qqs}, expected {s1['qqs']}", **ctx))
            if s in ("qq_depth_min", "qq_depth_max"):
                # a min / max keyword also overrides an exact depth that came from the config (documented in Tract.parse)
                t8 = Tract(desc, config="qq_depth.1")
                t8.parse(**{s: value})
                if (tuple(t8.lots), tuple(t8.qqs)) != (s1["lots"], s1["qqs"]):
                    fails.append(Failure(f"tract_keyword_does_not_win_over_qq_depth:{s}", f"config qq_depth.1 + parse({s}={value}) on {desc!r} gives {t8.qqs}, expected {s1['qqs']}", **ctx))
                d8 = PLSSDesc(f"T154N-R97W Sec 14: {desc}", config="parse_qq,qq_depth.1")
                d8.parse_tracts(**{s: value})
                if tuple(d8.tracts[0].qqs) != s1["qqs"]:
                    fails.append(Failure(f"parse_tracts_keyword_does_not_win_over_qq_depth:{s}", f"config qq_depth.1 + parse_tracts({s}={value}) on {desc!r} gives {d8.tracts[0].qqs}, expected {s1['qqs']}", **ctx))
                d9 = PLSSDesc(f"T154N-R97W Sec 14: {desc}", config="parse_qq,qq_depth.1", wait_to_parse=True)
                d9.parse(**{s: value})
                if tuple(d9.tracts[0].qqs) != s1["qqs"]:
                    fails.append(Failure(f"plss_keyword_does_not_win_over_qq_depth:{s}", f"config qq_depth.1 + PLSSDesc.parse({s}={value}) on {desc!r} gives {d9.tracts[0].qqs}, expected {s1['qqs']}", **ctx))
    return fails


def bit_classes(c):
    return [f"setting={c['setting']}", ("bit:" if _last.get("bit") else "nobite:") + c["setting"], f"conflict={c['conflict']}"]


# wait_to_parse: the one setting that acts at creation ------------------------------------------------------------------------

WAIT_TEXTS = ["T154N-R97W Sec 14: NE/4", "T154-R97 Sec 14: NE/4, Sec 15: Lots 1 - 3", "NE/4 of Sec 1, T1N-R1E", "no land description here"]
WAIT_CHANNELS = ["config_bare", "config_value", "config_object", "keyword", "keyword_over_config_false", "keyword_false_over_config", "config_false", "none"]


def enum_wait(tier):
    return [{"text": t, "channel": ch, "extra": ex} for t in WAIT_TEXTS for ch in WAIT_CHANNELS for ex in ("", "parse_qq", "n,w,segment")]


def oracle_wait(c):
    text, ch, extra = c["text"], c["channel"], c["extra"]
    join = lambda *xs: ",".join(x for x in xs if x)  # noqa: E731
    want_waiting = ch in ("config_bare", "config_value", "config_object", "keyword", "keyword_over_config_false")
    if ch == "config_bare":
        d = PLSSDesc(text, config=join(extra, "wait_to_parse"))
    elif ch == "config_value":
        d = PLSSDesc(text, config=join("wait_to_parse.True", extra))
    elif ch == "config_object":
        d = PLSSDesc(text, config=Config(join(extra, "wait_to_parse=True")))
    elif ch == "keyword":
        d = PLSSDesc(text, config=extra, wait_to_parse=True)
    elif ch == "keyword_over_config_false":
        d = PLSSDesc(text, config=join(extra, "wait_to_parse.False"), wait_to_parse=True)
    elif ch == "keyword_false_over_config":
        d = PLSSDesc(text, config=join(extra, "wait_to_parse"), wait_to_parse=False)
    elif ch == "config_false":
        d = PLSSDesc(text, config=join(extra, "wait_to_parse.False"))
    else:
        d = PLSSDesc(text, config=extra)
    ref = PLSSDesc(text, config=extra)
    fails = []
    waiting = len(d.tracts) == 0
    if waiting != want_waiting:
        fails.append(Failure(f"wait_to_parse_channel:{ch}", f"PLSSDesc({text!r}) with wait_to_parse given through {ch} [{extra}]: parsed at creation = {not waiting}, expected {not want_waiting}",
                             text=text, channel=ch))
        return fails
    if waiting:
        # waiting means: nothing parsed yet, the preprocessed text is there, and parse() then gives what an ordinary object has
        if d.pp_desc != ref.pp_desc:
            fails.append(Failure("wait_to_parse_pp_desc", f"waiting object has pp_desc {d.pp_desc!r}, an ordinary one {ref.pp_desc!r}", text=text, channel=ch))
        d.parse()
    if snap_plss(d) != snap_plss(ref):
        fails.append(Failure(f"wait_to_parse_result:{ch}", f"{text!r} [{extra}] via {ch}: after parsing {snap_plss(d)['tracts']} {snap_plss(d)['flags']}, an ordinary object gives {snap_plss(ref)['tracts']} {snap_plss(ref)['flags']}",
                             text=text, channel=ch))
    return fails


SUBS = [
    Sub("roundtrip", oracle_roundtrip, strategy=lambda tier: RT_CASE, nontrivial=lambda c: len(c["cfg"]) >= 2,
        classes=lambda c: [f"n_set={min(len(c['cfg']), 8)}"] + [f"set:{k}" for k in c["cfg"]],
        render=lambda c: {"text": configs.to_text(c["cfg"], c["style"]), "cfg": c["cfg"]},
        n={"quick": 1500, "thorough": 20000}, shards={"quick": 4, "thorough": 16}, essential=tuple(f"set:{k}" for k in ATTRS)),
    Sub("unknown", oracle_unknown, strategy=lambda tier: UNK_CASE, classes=lambda c: [f"target={c['target']}", "with_value" if c["value"] else "bare"],
        render=lambda c: c, n={"quick": 600, "thorough": 8000}, shards={"quick": 2, "thorough": 8}),
    Sub("plss_channels", oracle_plss, strategy=lambda tier: PLSS_CASE, nontrivial=lambda c: bool(_last.get("bit")), classes=bit_classes,
        render=lambda c: {"setting": c["setting"], "fill": c["fill"], "conflict": c["conflict"]},
        n={"quick": 500, "thorough": 6000}, shards={"quick": 6, "thorough": 16}, essential=tuple(f"bit:{s}" for s in W)),
    Sub("tract_channels", oracle_tract, strategy=lambda tier: TRACT_CASE, nontrivial=lambda c: bool(_last.get("bit")), classes=bit_classes,
        render=lambda c: {"setting": c["setting"], "fill": c["fill"], "conflict": c["conflict"]},
        n={"quick": 500, "thorough": 6000}, shards={"quick": 4, "thorough": 16}, essential=tuple(f"bit:{s}" for s in TW)),
    Sub("wait_to_parse", oracle_wait, enumerate=enum_wait, exhaustive=True, nontrivial=lambda c: c["channel"] != "none",
        classes=lambda c: [f"channel={c['channel']}"], render=lambda c: c, shards={"quick": 2, "thorough": 2}),
]
