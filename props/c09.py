"""C09 - every tract is well-formed and traceable to its source."""
import re

from hypothesis import strategies as st

from vlib.core import Sub, Failure
from vlib import env, configs, parsing

pytrs = env.import_pytrs()

ID = "C09"
RULE = (
    "Same input space as C03 (token soup, arbitrary text, damaged and well-formed descriptions x all parse-relevant "
    "settings x entry points, with a generated source tag), run independently with its own seeds. Every tract of every "
    "parse is checked against a harness grammar for the Twp/Rge/Sec string and an independent decomposition. "
    "Non-trivial: the parse yields >= 2 tracts or an error placeholder. Distinct = distinct (text, config, entry)."
)
ASSUMPTIONS = ["Reference grammar for .trs is written in the harness: (\\d{1,3}[ns]|XXXz)(\\d{1,3}[ew]|XXXz)(\\d{2}|XX)."]

# (ASCII digits only: a Twp/Rge/Sec written with other Unicode digits is not the standard form)
TRS_G = re.compile(r"(?P<twp>(?P<tn>[0-9]{1,3})(?P<ns>[ns])|XXXz)(?P<rge>(?P<rn>[0-9]{1,3})(?P<ew>[ew])|XXXz)(?P<sec>[0-9]{2}|XX)")

_last = {}


def oracle(c):
    made = parsing.make_plss_or_skip(c, parse_qq=False)
    if made is None:
        return []
    d, tracts = made
    fails = []
    text = c["text"]["text"]
    ctx = parsing.render(c)
    _last["n"] = len(tracts)
    _last["err"] = False
    # what the public converter returns for a tract's string is the caller's to edit (a report row, say): the tracts keep
    # decomposing their own string all the same
    if c.get("edit_converter_output", len(text) % 2 == 0):
        from pytrs import trs_to_dict, TRS
        for t in tracts[:3]:
            row = trs_to_dict(t.trs)
            for k in list(row):
                row[k] = row[k].upper() if isinstance(row[k], str) else -1
            TRS.trs_to_dict(t.trs).clear()
    for i, t in enumerate(tracts):
        m = TRS_G.fullmatch(t.trs)
        if not m:
            fails.append(Failure("trs_malformed", f"tract {i} trs {t.trs!r} is neither standard nor error-placeholder form", trs=t.trs, **ctx))
            continue
        if "XX" in t.trs:
            _last["err"] = True
        want = {
            "twp": m.group("twp"), "rge": m.group("rge"), "sec": m.group("sec"),
            "twprge": m.group("twp") + m.group("rge"),
            "twp_num": int(m.group("tn")) if m.group("tn") else None,
            "twp_ns": m.group("ns"),
            "rge_num": int(m.group("rn")) if m.group("rn") else None,
            "rge_ew": m.group("ew"),
            "sec_num": int(m.group("sec")) if m.group("sec").isdigit() else None,
        }
        for k, v in want.items():
            got = getattr(t, k)
            if got != v:
                fails.append(Failure(f"decomposition:{k}", f"tract {i} trs {t.trs!r}: {k} = {got!r}, expected {v!r}", trs=t.trs, **ctx))
        if t.trs_is_undef():
            fails.append(Failure("undefined_component", f"tract {i} trs {t.trs!r} reports an undefined component", **ctx))
        if t.orig_desc != text:
            fails.append(Failure("orig_desc", f"tract {i}: orig_desc {t.orig_desc!r} is not the complete original text {text!r}", **ctx))
        if t.source != parsing.source_of(c) or type(t.source) is not type(parsing.source_of(c)):
            fails.append(Failure("source", f"tract {i}: source {t.source!r} != parent's {parsing.source_of(c)!r}", **ctx))
        if t.orig_index != i:
            fails.append(Failure("orig_index", f"tract at position {i} has orig_index {t.orig_index}", **ctx))
    # a tract whose Twp/Rge/Sec is corrected afterwards decomposes the new string (every attribute, also one that was read before)
    if tracts and not fails and committed_like(c):
        t = tracts[0]
        _ = (t.twprge, t.twp, t.sec_num)
        for how in ("trs_attribute", "set_twprgesec"):
            new = "1s2e03" if t.trs != "1s2e03" else "7n8w09"
            if how == "trs_attribute":
                t.trs = new
            else:
                new = "145n7e02"
                t.set_twprgesec("145n", "7e", 2)
            got = (t.trs, t.twp, t.rge, t.sec, t.twprge, t.twp_num, t.rge_num, t.sec_num, t.twp_ns, t.rge_ew)
            m = TRS_G.fullmatch(new)
            want = (new, m.group("twp"), m.group("rge"), m.group("sec"), m.group("twp") + m.group("rge"), int(m.group("tn")), int(m.group("rn")), int(m.group("sec")),
                    m.group("ns"), m.group("ew"))
            if got != want:
                k = next(i for i, (a, b) in enumerate(zip(got, want)) if a != b)
                name = ("trs", "twp", "rge", "sec", "twprge", "twp_num", "rge_num", "sec_num", "twp_ns", "rge_ew")[k]
                fails.append(Failure(f"decomposition_after_correction:{name}", f"tract re-assigned to {new!r} via {how}: {name} = {got[k]!r}, expected {want[k]!r}", **ctx))
                break
    seen, out = set(), []
    for f in fails:
        if f.sig not in seen:
            seen.add(f.sig)
            out.append(f)
    return out


def committed_like(c):
    return True


def nontrivial(c):
    # uses what the oracle just observed for this case (the harness classifies after running the oracle)
    return _last.get("n", 0) >= 2 or _last.get("err", False)


def classes(c):
    out = parsing.text_classes(c)
    out.append("tracts=" + ("1" if _last.get("n", 0) == 1 else "2+" if _last.get("n", 0) >= 2 else "0"))
    if _last.get("err"):
        out.append("has_error_placeholder")
    return out


SUBS = [
    Sub("tracts", oracle, strategy=lambda tier: parsing.CASE, nontrivial=nontrivial, classes=classes,
        render=parsing.render, n={"quick": 1500, "thorough": 12000}, shards={"quick": 8, "thorough": 16}, text_keys=("text",),
        essential=("gen=soup", "gen=raw", "gen=damaged", "gen=wellformed", "tracts=2+", "has_error_placeholder")),
]

# thorough tier: coverage-guided fuzzing (atheris / libFuzzer) of the same oracle, see fuzz/fuzz_parse.py
from vlib import fuzzrun  # noqa: E402
_fuzz_last = {}
SUBS.append(fuzzrun.fuzz_sub(ID, lambda: next(s for s in SUBS if s.name == "tracts"), _fuzz_last))
