"""C04 - no description text is silently dropped."""
import re

from hypothesis import strategies as st

from vlib.core import Sub, Failure, note_excluded
from vlib import env, grammar as G, soup

pytrs = env.import_pytrs()
from pytrs import PLSSDesc  # noqa: E402

ID = "C04"
RULE = (
    "Well-formed descriptions of the C01 grammar and damaged ones (token deletion / duplication / swap / truncation / colon "
    "removal / stray Twp/Rge or section inserted) x parse modes {default, segment, sec_within, sec_colon_required, "
    "sec_colon_cautious, segment+sec_within, each of the four layouts and copy_all forced through parse(layout=), and combinations: "
    "any 1..3 of the four flags with or without a layout mandated through parse(layout=) or the config text; and uncommitted parses, where the "
    "returned tracts and the flags they carry are all there is to look at} x one foreign word "
    "inserted at any token or punctuation boundary (start, end, inside a Twp/Rge, inside a section list, inside a block, "
    "before the first / after the last Twp/Rge). Words: the marker QJXKQ, random alphabetic words of 5..12 letters, nine words of 2..4 letters, and "
    "ordinary deed words that collide with pattern fragments (equipment, development, northerly, ...). Oracle: the word is "
    "a substring of some tract description or of an unused_desc error flag. A second sub-check requires every block word "
    "(>= 5 letters) of an undamaged description to survive in every mode. Non-trivial: the word lands in an error flag, or "
    "the mode is not the default, or the description was damaged. Distinct = distinct (text, word, position, mode)."
)
ASSUMPTIONS = [
    "A foreign word never full-matches a keyword of the PLSS vocabulary (direction / Township / Range / Section / Lot words, list connectives, of/the/all/in/and, P.M. words) - decided by a harness-side table.",
    "Generated descriptions contain no genuine principal-meridian designation, so no insertion point is exempt.",
    "A word starting with n/s/e/w is not inserted directly after a number (there its first letters are that number's N/S/E/W): counted exclusion.",
]

MODES = ["", "segment", "sec_within", "sec_colon_required", "sec_colon_cautious", "segment,sec_within", "nocommit", "segment,nocommit",
         "layout:TRS_desc", "layout:desc_STR", "layout:S_desc_TR", "layout:TR_desc_S", "layout:copy_all"]

DEED_WORDS = ["equipment", "development", "northerly", "southerly", "easement", "easterly", "westerly", "improvements", "topmost",
              "supplemental", "primary", "shipment", "compartment", "stepmother", "township-free".replace("-free", "s"), "ranges",
              "sectional", "allotment", "lotus", "through-put".replace("-", ""), "inside", "thereof", "andesite", "theatre", "tower",
              "rangeland", "permit", "pmark", "premium", "upmost", "campsite"]

KEYWORD = re.compile(
    r"(n[orth]{0,5}|s[outh]{0,5}|e[ast]{0,3}|w[est]{0,3}|t[ownship]{0,9}|r[ange]{0,6}|tw\.?|twp\.?|rge\.?"
    r"|section|sect|sec|secion|seciton|secton|sectn|secn|sections|sects|secs"
    r"|lots?|lts?|l|th[rough]{3,6}|thru|to|and|of|the|all|in|said|within|half|quarter|one"
    r"|p{1,2}r{1,2}i{0,2}n{0,2}c{0,2}i{0,2}p{0,2}a{0,2}l{0,2}|m{1,2}e{0,2}r{0,2}i{0,2}d{0,2}i{0,2}a{0,2}n{0,2}|pm"
    r"|p{1,2}r{1,2}i{0,2}n{0,2}c{0,2}i{0,2}p{0,2}a{0,2}l{0,2}m{1,2}e{0,2}r{0,2}i{0,2}d{0,2}i{0,2}a{0,2}n{0,2}"
    r"|ne|nw|se|sw|northeast|northwest|southeast|southwest|less|except|including|well|wellbore)", re.I)


SEC_TAIL = re.compile(r".*(section|sect|sec|secion|seciton|secton|sectn|secn)s?", re.I)


SHORT_WORDS = ["QJX", "ZQ", "ok", "xyz", "foo", "QJXK", "kiln", "jazz", "qua"]      # 2..4 letters, none of them PLSS vocabulary


def admissible(word):
    # a word that merely ends in a section keyword ('...sec 29') donates that ending to a section reference
    if word in SHORT_WORDS:
        return True
    return word.isalpha() and len(word) >= 5 and not KEYWORD.fullmatch(word) and not SEC_TAIL.fullmatch(word)


WORD = st.one_of(st.just("QJXKQ"), st.sampled_from(DEED_WORDS), st.sampled_from(SHORT_WORDS),
                 st.text(alphabet="abcdefghijklmnopqrstuvwxyz", min_size=5, max_size=12),
                 st.text(alphabet="pmreqtnsw", min_size=5, max_size=8)).filter(admissible)

_OPS = st.lists(soup._OP, min_size=0, max_size=2)


def boundaries(text):
    """Insertion points: start, end, and every position next to whitespace or one of - , : ; ."""
    pts = {0, len(text)}
    for i, ch in enumerate(text):
        if ch.isspace() or ch in "-,:;.–—":
            pts.add(i)
            pts.add(i + 1)
    return sorted(pts)


def build_text(c):
    base = G.render(c["d"])
    if c["ops"]:
        base = soup._damage((base, [tuple(o) for o in c["ops"]]))
    pts = boundaries(base)
    p = pts[c["pos"] % len(pts)]
    deco = c.get("deco") or "none"
    if deco == "pm_heading":
        p = 0               # a heading that names the meridian, in front of the first Twp/Rge (nothing there for it to belong to)
    elif deco == "pm_tail":
        p = len(base)       # county, state and meridian after the end, further from the last Twp/Rge than a meridian's name reaches
    left, right = base[:p], base[p:]
    ins = c["word"]
    if deco == "pm_heading":
        ins = "Sixth Principal Meridian, Colorado " + ins
    elif deco == "pm_tail":
        ins = ", Williams County, North Dakota, " + ins + " 5th P.M."
    elif deco.startswith("abbr:"):
        ins = ins + deco[5:]      # a dotted abbreviation that is not a meridian ('N.M.' = New Mexico, a time of day)
    if left and not left[-1].isspace():
        ins = " " + ins
    if right and not right[0].isspace():
        ins = ins + " "
    return left + ins + right, p


def direction_slot(c):
    """The word starts with n/s/e/w and sits right after a number: its first letters are read as that number's direction."""
    text, p = build_text(c)
    before = text[:text.index(c["word"], max(0, p - 1))].rstrip(" \t\n.-–—,;|_~")
    return bool(before) and before[-1].isdigit() and c["word"][0].lower() in "nsew"


def _keep(c):
    if direction_slot(c):
        note_excluded("word_starting_nsew_directly_after_a_number")
        return False
    return True


def _combo(flags, layout, via):
    parts = sorted(flags)
    if layout:
        parts.append(f"{via}:{layout}")
    return ",".join(parts)


# combinations: any subset of the flags, optionally with a layout mandated through parse(layout=) or the config text
MODE = st.one_of(
    st.sampled_from(MODES),
    st.builds(_combo, st.sets(st.sampled_from(["segment", "sec_within", "sec_colon_required", "sec_colon_cautious"]), min_size=1, max_size=3),
              st.sampled_from([None, None] + G.LAYOUTS + ["copy_all"]), st.sampled_from(["layout", "cfglayout"])))


CASE = st.fixed_dictionaries({
    "d": G.description(None, 2, 2), "ops": _OPS.map(lambda ops: [list(o) for o in ops]), "word": WORD,
    "pos": st.integers(0, 400), "mode": MODE,
    "deco": st.sampled_from(["none"] * 8 + ["pm_heading", "pm_tail", "abbr:, N.M.", "abbr: a.m.", "abbr:, B.M.", "abbr: W.M. survey", "abbr:, M.D.M."]),
}).filter(_keep)

_last = {}


class _Uncommitted:
    """What an uncommitted parse leaves to look at: the tracts it returned (and the flags they carry)."""

    def __init__(self, d, tracts):
        self.tracts = tracts
        self.pp_desc = d.pp_desc
        self.e_flags = [f for t in tracts for f in t.e_flags]


def parse(text, mode):
    """mode: comma-separated settings; 'layout:X' is handed to parse(layout=X), 'cfglayout:X' is part of the config text;
    'nocommit' parses with commit=False and looks at the returned tracts only."""
    parts = [m for m in mode.split(",") if m]
    if "nocommit" in parts:
        parts.remove("nocommit")
        forced = [m.split(":", 1)[1] for m in parts if m.startswith("layout:")]
        cfg = ",".join(m.split(":", 1)[1] if m.startswith("cfglayout:") else m for m in parts if not m.startswith("layout:"))
        d = PLSSDesc(text, config=cfg, wait_to_parse=True)
        tracts = d.parse(commit=False, **({"layout": forced[0]} if forced else {}))
        return _Uncommitted(d, tracts)
    forced = [m.split(":", 1)[1] for m in parts if m.startswith("layout:")]
    cfg = ",".join(m.split(":", 1)[1] if m.startswith("cfglayout:") else m for m in parts if not m.startswith("layout:"))
    if forced:
        d = PLSSDesc(text, config=cfg, wait_to_parse=True)
        d.parse(layout=forced[0])
        return d
    return PLSSDesc(text, config=cfg)


def mode_class(mode):
    return "mode=" + (mode if mode in MODES else "combination")


def where(d, word):
    in_tract = [t.trs for t in d.tracts if word in t.desc]
    in_flag = [f for f in d.e_flags if isinstance(f, str) and f.startswith("unused_desc<") and word in f]
    return in_tract, in_flag


def oracle(c):
    text, p = build_text(c)
    d = parse(text, c["mode"])
    in_tract, in_flag = where(d, c["word"])
    _last["landing"] = "tract" if in_tract else ("flag" if in_flag else "lost")
    if not in_tract and not in_flag:
        stage = "preprocess" if c["word"] not in d.pp_desc else "parse"
        return [Failure(f"word_dropped:{stage}", f"{c['word']!r} inserted at {p} of {text!r} [{c['mode']}] is in no tract description and no unused_desc flag",
                        text=text, word=c["word"], mode=c["mode"], pp_desc=d.pp_desc,
                        tracts=[(t.trs, t.desc) for t in d.tracts], e_flags=list(d.e_flags))]
    return []


def validate(c):
    return admissible(c["word"]) and G.validate(c["d"]) and not direction_slot(c)


def nontrivial(c):
    return _last.get("landing") == "flag" or c["mode"] != "" or bool(c["ops"])


def classes(c):
    out = [mode_class(c["mode"]), f"landing={_last.get('landing')}", "damaged" if c["ops"] else "undamaged"]
    w = c["word"]
    if (c.get("deco") or "none") != "none":
        out.append("deco=" + c["deco"].split(":")[0])
    out.append("word=marker" if w == "QJXKQ" else "word=deed" if w in DEED_WORDS else "word=short" if w in SHORT_WORDS else "word=random")
    return out


def render(c):
    text, p = build_text(c)
    return {"text": text, "word": c["word"], "mode": c["mode"]}


# ---------------------------------------------------------------------------
# conservation of the known payload on undamaged descriptions

PAY_CASE = st.fixed_dictionaries({"d": G.description(None, 3, 3), "mode": MODE})


def payload_words(d):
    out = []
    for g in d["groups"]:
        for s in g["secs"]:
            for w in re.findall(r"[A-Za-z]{5,}", s["block"]):
                if admissible(w):
                    out.append(w)
    return out


def oracle_payload(c):
    text = G.render(c["d"])
    d = parse(text, c["mode"])
    lost = []
    for w in payload_words(c["d"]):
        a, b = where(d, w)
        if not a and not b:
            lost.append(w)
    _last["landing"] = "lost" if lost else "kept"
    if lost:
        return [Failure("payload_dropped", f"{text!r} [{c['mode']}]: block words {lost[:5]} are in no tract description and no unused_desc flag",
                        text=text, mode=c["mode"], tracts=[(t.trs, t.desc) for t in d.tracts], e_flags=list(d.e_flags))]
    return []


# single-tract descriptions under sec_within: several unused blocks are re-attached around the one tract ---------------
from props import c20 as _c20  # noqa: E402

WITHIN_CASE = st.fixed_dictionaries({"w": _c20.WITHIN, "word": WORD, "pos": st.integers(0, 400),
                                     "mode": st.sampled_from(["sec_within", "sec_within", "sec_within,segment", ""])})


def within_text(c):
    base = _c20.within_text(c["w"])
    pts = boundaries(base)
    p = pts[c["pos"] % len(pts)]
    deco = c.get("deco") or "none"
    if deco == "pm_heading":
        p = 0               # a heading that names the meridian, in front of the first Twp/Rge (nothing there for it to belong to)
    elif deco == "pm_tail":
        p = len(base)       # county, state and meridian after the end, further from the last Twp/Rge than a meridian's name reaches
    left, right = base[:p], base[p:]
    ins = c["word"]
    if deco == "pm_heading":
        ins = "Sixth Principal Meridian, Colorado " + ins
    elif deco == "pm_tail":
        ins = ", Williams County, North Dakota, " + ins + " 5th P.M."
    elif deco.startswith("abbr:"):
        ins = ins + deco[5:]      # a dotted abbreviation that is not a meridian ('N.M.' = New Mexico, a time of day)
    if left and not left[-1].isspace():
        ins = " " + ins
    if right and not right[0].isspace():
        ins = ins + " "
    return left + ins + right


def oracle_within(c):
    text = within_text(c)
    before = text[:text.index(c["word"])].rstrip(" \t\n.-–—,;|_~")
    if before and before[-1].isdigit() and c["word"][0].lower() in "nsew":
        note_excluded("word_starting_nsew_directly_after_a_number")
        return []
    d = parse(text, c["mode"])
    in_tract, in_flag = where(d, c["word"])
    _last["landing"] = "tract" if in_tract else ("flag" if in_flag else "lost")
    fails = []
    if not in_tract and not in_flag:
        stage = "preprocess" if c["word"] not in d.pp_desc else "parse"
        fails.append(Failure(f"word_dropped:{stage}", f"{c['word']!r} in {text!r} [{c['mode']}] is in no tract description and no unused_desc flag",
                             text=text, mode=c["mode"], tracts=[(t.trs, t.desc) for t in d.tracts], e_flags=list(d.e_flags)))
    # the known payload (leading / trailing texts) must survive as well
    for part in (c["w"]["lead"], c["w"]["trail"]) + ((c["w"]["trail2"],) if c["w"]["place"] in ("between_and_after", "before_and_after") else ()):
        for w in re.findall(r"[A-Za-z]{5,}", part):
            if admissible(w):
                a, b = where(d, w)
                if not a and not b:
                    fails.append(Failure("payload_dropped", f"{text!r} [{c['mode']}]: {w!r} is in no tract description and no unused_desc flag",
                                         text=text, mode=c["mode"], tracts=[(t.trs, t.desc) for t in d.tracts], e_flags=list(d.e_flags)))
                    return fails
    return fails


SUBS = [
    Sub("sec_within_single", oracle_within, strategy=lambda tier: WITHIN_CASE, validate=lambda c: admissible(c["word"]) and _c20.validate_within(c["w"]),
        nontrivial=lambda c: True, classes=lambda c: [f"mode={c['mode']}", f"place={c['w']['place']}", f"landing={_last.get('landing')}"],
        render=lambda c: {"text": within_text(c), "word": c["word"], "mode": c["mode"]},
        n={"quick": 500, "thorough": 8000}, shards={"quick": 4, "thorough": 16}),
    Sub("foreign_word", oracle, strategy=lambda tier: CASE, validate=validate, nontrivial=nontrivial, classes=classes, render=render,
        n={"quick": 1200, "thorough": 20000}, shards={"quick": 10, "thorough": 16},
        essential=tuple(f"mode={m}" for m in MODES) + ("mode=combination", "landing=flag", "landing=tract", "damaged", "word=deed", "word=random", "word=short")),
    Sub("payload", oracle_payload, strategy=lambda tier: PAY_CASE, validate=lambda c: G.validate(c["d"]),
        nontrivial=lambda c: c["mode"] != "" and bool(payload_words(c["d"])), classes=lambda c: [mode_class(c["mode"])],
        render=lambda c: {"text": G.render(c["d"]), "mode": c["mode"]},
        n={"quick": 600, "thorough": 8000}, shards={"quick": 4, "thorough": 16}),
]
