"""C10 - flags are well-typed, shared with tracts, and raised whenever warranted."""
import re

from hypothesis import strategies as st

from vlib.core import Sub, Failure
from vlib import env, configs, parsing, grammar as G

pytrs = env.import_pytrs()
from pytrs import PLSSDesc  # noqa: E402

ID = "C10"
RULE = (
    "(typing) the C03 input space (token soup, arbitrary text, damaged and well-formed descriptions x settings x entry points, "
    "with lots/aliquots parsed so tract-level flags exist), run independently; (planted) descriptions of the C01 grammar whose "
    "blocks get one trigger phrase per flag kind (exception / limitation / insofar / including / depth / wellbore wording, 20 "
    "phrasings) appended or prepended, alone or several kinds at once, with and without segment; (after_queries) descriptions lacking a "
    "section or a Twp/Rge (fresh 1-3 digit numbers each time) parsed after 0..4 queries about the very Twp/Rge/Sec strings involved "
    "(TRS.is_error / is_undef, Tract.trs_is_error, filter_errors on both containers, each with random twp/rge/sec/undef arguments, "
    "each answer checked against the component model): the error flag must be there all the same. Non-trivial: at least one "
    "flag is raised. Distinct = distinct (text, config, entry)."
)
ASSUMPTIONS = [
    "At most one trigger phrase of each flag kind is planted per description, so no trigger straddles the edge of another trigger's 25/40-character context window (DESIGN 6.9).",
]

_last = {}


def check_flag_lists(obj, label, fails, ctx):
    for kind in ("w", "e"):
        flags = getattr(obj, f"{kind}_flags")
        lines = getattr(obj, f"{kind}_flag_lines")
        if not isinstance(flags, list) or any(not isinstance(f, str) for f in flags):
            fails.append(Failure(f"flag_type:{kind}", f"{label}.{kind}_flags is not a list of str: {flags!r}"[:400], **ctx))
            continue
        bad_line = [ln for ln in lines if not (isinstance(ln, tuple) and len(ln) == 2 and all(isinstance(x, str) for x in ln))]
        if not isinstance(lines, list) or bad_line:
            fails.append(Failure(f"flag_line_type:{kind}", f"{label}.{kind}_flag_lines has a non-(str, str) entry: {bad_line[:2]!r}"[:400], **ctx))
            continue
        if len(flags) != len(lines):
            fails.append(Failure(f"flag_line_count:{kind}", f"{label}: {len(flags)} {kind}_flags but {len(lines)} {kind}_flag_lines: {flags!r} / {lines!r}"[:500], **ctx))
            continue
        for f, ln in zip(flags, lines):
            if ln[0] != f:
                fails.append(Failure(f"flag_line_pairing:{kind}", f"{label}: flag {f!r} paired with line {ln!r}", **ctx))
                break
    if list(obj.flags) != list(obj.e_flags) + list(obj.w_flags):
        fails.append(Failure("flags_combined", f"{label}.flags is not e_flags + w_flags", **ctx))
    # the combined lists are paired one-to-one as well
    comb, comb_lines = list(obj.flags), list(obj.flag_lines)
    if len(comb) != len(comb_lines) or any(not (isinstance(ln, tuple) and len(ln) == 2 and ln[0] == f) for f, ln in zip(comb, comb_lines)):
        fails.append(Failure("flags_combined_pairing", f"{label}: .flags {comb!r} and .flag_lines {comb_lines!r} are not paired one-to-one"[:500], **ctx))
    if bool(obj.desc_is_flawed) != bool(obj.e_flags):
        fails.append(Failure("desc_is_flawed", f"{label}.desc_is_flawed={obj.desc_is_flawed} but e_flags={obj.e_flags!r}", **ctx))


def oracle_typing(c):
    made = parsing.make_plss_or_skip(c, parse_qq=True)
    if made is None:
        return []
    d, tracts = made
    fails = []
    ctx = parsing.render(c)
    committed = c["entry"] != "parse_kw_nocommit"
    check_flag_lists(d, "PLSSDesc", fails, ctx)
    n_flags = len(d.w_flags) + len(d.e_flags)
    for i, t in enumerate(tracts):
        check_flag_lists(t, f"tract[{i}]", fails, ctx)
        n_flags += len(t.w_flags) + len(t.e_flags)
        if committed:
            for kind in ("w", "e"):
                mine = getattr(t, f"{kind}_flags")
                if all(isinstance(f, str) for f in mine):
                    missing = [f for f in getattr(d, f"{kind}_flags") if isinstance(f, str) and f not in mine]
                    if missing:
                        fails.append(Failure(f"flag_not_shared:{kind}", f"description {kind}_flags {missing!r} missing on tract[{i}] ({t.trs})", **ctx))
                        break
    if committed:
        # parsing the tracts into lots / aliquots again (twice) must not cost them the description's flags
        d.parse_tracts()
        d.parse_tracts()
        for i, t in enumerate(d.tracts):
            check_flag_lists(t, f"tract[{i}] after parse_tracts", fails, ctx)
            for kind in ("w", "e"):
                mine = getattr(t, f"{kind}_flags")
                missing = [f for f in getattr(d, f"{kind}_flags") if isinstance(f, str) and f not in mine]
                if missing:
                    fails.append(Failure(f"flag_not_shared_after_reparse:{kind}", f"after parse_tracts() twice, description {kind}_flags {missing!r} are missing on tract[{i}] ({t.trs})", **ctx))
                    break
        # ... nor must configuring the (already parsed) tracts for it, with or without parsing them again
        if not fails:
            steps = [("config_tracts('qq_depth_min.1')", lambda: d.config_tracts("qq_depth_min.1")),
                     ("parse_tracts(config='break_halves')", lambda: d.parse_tracts(config="break_halves"))]
            if c.get("source") in (42, 0):
                steps.reverse()
            for what, step in steps:
                step()
                for i, t in enumerate(d.tracts):
                    check_flag_lists(t, f"tract[{i}] after {what}", fails, ctx)
                    missing = [f for kind in ("w", "e") for f in getattr(d, f"{kind}_flags") if isinstance(f, str) and f not in getattr(t, f"{kind}_flags")]
                    if missing:
                        fails.append(Failure("flag_not_shared_after_reconfiguring_tracts", f"after {what}, description flags {missing!r} are missing on tract[{i}] ({t.trs})", **ctx))
                        break
                if fails:
                    break
    if committed and any(t.trs_is_error() for t in tracts) and not d.e_flags:
        fails.append(Failure("error_trs_without_flag", f"a tract has an undecipherable Twp/Rge/Sec but e_flags is empty: {[t.trs for t in tracts]}", **ctx))
    if committed and not fails:
        # "flawed exactly when it has an error flag" is a statement about the flags, whatever is done to the list of tracts afterwards
        flags_before = list(d.e_flags)
        d.filter_errors(drop=True)
        if bool(d.desc_is_flawed) != bool(d.e_flags) or list(d.e_flags) != flags_before:
            fails.append(Failure("desc_is_flawed_after_filter", f"after filter_errors(drop=True): desc_is_flawed={d.desc_is_flawed}, e_flags={d.e_flags!r} (before: {flags_before!r}), {len(d.tracts)} tracts left", **ctx))
        d.filter(lambda t: True, drop=True)
        if bool(d.desc_is_flawed) != bool(d.e_flags):
            fails.append(Failure("desc_is_flawed_after_filter", f"after every tract was filtered out: desc_is_flawed={d.desc_is_flawed}, e_flags={d.e_flags!r}", **ctx))
    _last["flags"] = n_flags
    seen, out = set(), []
    for f in fails:
        if f.sig not in seen:
            seen.add(f.sig)
            out.append(f)
    return out


# ---------------------------------------------------------------------------
# planted triggers

TRIGGERS = {
    "less_except": ["less and except", "LESS AND EXCEPT", "except", "less", "Less & Except".replace("&", "and"), "limited to", "excepting"],
    "insofar": ["insofar as", "in so far as", "only insofar as", "but only insofar as", "INSOFAR AS"],
    "including": ["including", "incl.", "Including"],
    "depth": ["from the surface to the base of", "as to all depths", "the Dakota formation", "down to 5000 feet", "depths below the top of",
              # plural / compound forms of the same words
              "the Bakken and Three Forks formations", "subsurface rights only", "both surfaces and"],
    "well": ["the wellbore of", "the Smith 1-14 well", "wellbore only", "Well"],
}
TAILS = ["the north 10 acres", "the Johnson tract", "a 5 acre parcel", "the road"]

_ALIQ_BLOCK = st.sampled_from(["NE/4", "N/2SW/4", "Lots 1 - 3", "W½", "E/2NW/4, Lot 2", "ALL"])


@st.composite
def planted(draw):
    d = draw(G.description(None, 2, 2))
    kinds = draw(st.lists(st.sampled_from(sorted(TRIGGERS)), min_size=1, max_size=3, unique=True))
    plants = []
    slots = [(gi, si) for gi, g in enumerate(d["groups"]) for si, _ in enumerate(g["secs"])]
    groups = [dict(g, secs=[dict(s) for s in g["secs"]]) for g in d["groups"]]
    # neutral blocks everywhere, so that only planted wording can trigger
    for g in groups:
        for s in g["secs"]:
            s["block"] = draw(_ALIQ_BLOCK)
    for k in kinds:
        gi, si = draw(st.sampled_from(slots))
        phrase = draw(st.sampled_from(TRIGGERS[k]))
        tail = draw(st.sampled_from(TAILS))
        s = groups[gi]["secs"][si]
        s["block"] = s["block"] + draw(st.sampled_from([", ", " ", ",\n"])) + phrase + " " + tail
        plants.append([k, phrase])
    return {"d": {"layout": d["layout"], "groups": groups}, "plants": plants,
            "config": draw(st.sampled_from(["", "segment", "parse_qq", "segment,parse_qq", "sec_colon_cautious", "copy_all", "layout.copy_all,segment",
                                            "sec_colon_required", "sec_within"])),
            # 'strip': the Twp/Rges or the section words are taken out, so that copy_all is deduced rather than requested
            "strip": draw(st.sampled_from(["none", "none", "none", "twprge", "sections"]))}


def planted_text(c):
    text = G.render(c["d"])
    if c.get("strip") == "twprge":
        for g in c["d"]["groups"]:
            text = text.replace(G.render_twprge(g), "the above township")
    elif c.get("strip") == "sections":
        text = re.sub(r"(?i)(sections?|sects?\.?|secs?\.?|§)", "parcel", text)
    return text


def oracle_planted(c):
    text = planted_text(c)
    d = PLSSDesc(text, config=c["config"])
    fails = []
    ctx = dict(text=text, config=c["config"], w_flags=list(d.w_flags), w_flag_lines=[list(x) if isinstance(x, tuple) else x for x in d.w_flag_lines])
    for kind, phrase in c["plants"]:
        if kind not in d.w_flags:
            fails.append(Failure(f"missing_flag:{kind}", f"{text!r}: wording {phrase!r} did not raise {kind!r}; w_flags={d.w_flags}", **ctx))
            continue
        # the triggering words themselves (the part of the phrase the flag is about) must show up in a context of that flag
        word = {"less_except": r"less and except|less|except|limit", "insofar": r"in ?so ?far", "including": r"incl",
                "depth": r"surface|depths|formation|down|top", "well": r"wellbore|well"}[kind]
        m = re.search(word, phrase, re.I)
        trig = m.group(0)
        ctxs = [ln[1] for ln in d.w_flag_lines if isinstance(ln, tuple) and ln[0] == kind]
        if not any(trig in cx for cx in ctxs):
            fails.append(Failure(f"trigger_not_in_context:{kind}", f"{text!r}: {kind} raised but {trig!r} is in none of its contexts {ctxs}", **ctx))
        for t in d.tracts:
            if kind not in t.w_flags:
                fails.append(Failure(f"flag_not_on_tract:{kind}", f"{text!r}: {kind} missing on tract {t.trs}", **ctx))
                break
    _last["flags"] = len(d.w_flags)
    return fails


def validate_planted(c):
    if not c["plants"] or not c["d"]["groups"] or any(not g["secs"] for g in c["d"]["groups"]):
        return False
    text = planted_text(c)
    return all(text.count(phrase) >= 1 for _, phrase in c["plants"]) and len({k for k, _ in c["plants"]}) == len(c["plants"])


def nontrivial(c):
    return _last.get("flags", 0) > 0


def classes_typing(c):
    out = parsing.text_classes(c)
    out.append("has_flags" if _last.get("flags", 0) else "no_flags")
    return out


# error flags after the TRS strings involved have been queried through the public API ---------------------------------------
# (an error flag is warranted by the tract at hand, whatever was asked about that Twp/Rge/Sec earlier in the process)

BOOL3 = st.tuples(st.booleans(), st.booleans(), st.booleans())
QUERY = st.tuples(st.sampled_from(["trs_is_error", "trs_is_undef", "tract_is_error", "trslist_filter_errors", "tractlist_filter_errors"]),
                  st.sampled_from(["as_parsed", "sec_error", "twprge_error", "sec_undef", "valid"]), BOOL3, st.booleans())
QUERY_CASE = st.fixed_dictionaries({
    "twp": st.integers(1, 999), "rge": st.integers(1, 999), "ns": st.sampled_from("ns"), "ew": st.sampled_from("ew"), "sec": st.integers(1, 36),
    "shape": st.sampled_from(["no_section", "no_twprge", "complete", "no_section_two_blocks", "section_word_only"]),
    "block": _ALIQ_BLOCK, "queries": st.lists(QUERY, min_size=0, max_size=4), "config": st.sampled_from(["", "", "segment", "parse_qq", "sec_colon_cautious"]),
})


def query_text(c):
    tr = f"T{c['twp']}{c['ns'].upper()}-R{c['rge']}{c['ew'].upper()}"
    if c["shape"] == "no_section":
        return f"{tr} {c['block']}"
    if c["shape"] == "no_twprge":
        return f"Sec {c['sec']}: {c['block']}"
    if c["shape"] == "no_section_two_blocks":
        return f"{tr} {c['block']}\nT{c['twp'] % 998 + 1}{c['ns'].upper()}-R{c['rge']}{c['ew'].upper()} {c['block']}"
    if c["shape"] == "section_word_only":
        return f"{tr} Section line road, {c['block']}"
    return f"{tr} Sec {c['sec']}: {c['block']}"


def oracle_queries(c):
    from pytrs import TRS, Tract, TRSList, TractList
    twprge = f"{c['twp']}{c['ns']}{c['rge']}{c['ew']}"
    strings = {"as_parsed": None, "sec_error": f"{twprge}XX", "twprge_error": f"XXXzXXXz{c['sec']:02d}", "sec_undef": f"{twprge}__",
               "valid": f"{twprge}{c['sec']:02d}"}
    text = query_text(c)
    fails = []
    ctx = dict(text=text, config=c["config"], queries=[list(q[:2]) + [list(q[2]), q[3]] for q in c["queries"]])
    for how, which, (tw, rg, sc), undef in c["queries"]:
        trs = strings[which] or strings["sec_error"]
        want_err = (tw and trs.startswith("XXXz")) or (rg and "XXXz" in trs[3:]) or (sc and trs.endswith("XX"))
        want_und = (tw and trs.startswith("___z")) or (rg and "___z" in trs[3:]) or (sc and trs.endswith("__"))
        if how == "trs_is_error":
            got = bool(TRS(trs).is_error(twp=tw, rge=rg, sec=sc))
            if got != bool(want_err):
                fails.append(Failure("query_is_error", f"TRS({trs!r}).is_error(twp={tw}, rge={rg}, sec={sc}) = {got}", **ctx))
        elif how == "trs_is_undef":
            got = bool(TRS(trs).is_undef(twp=tw, rge=rg, sec=sc))
            if got != bool(want_und):
                fails.append(Failure("query_is_undef", f"TRS({trs!r}).is_undef(twp={tw}, rge={rg}, sec={sc}) = {got}", **ctx))
        elif how == "tract_is_error":
            got = bool(Tract("NE/4", trs=trs).trs_is_error(twp=tw, rge=rg, sec=sc))
            if got != bool(want_err):
                fails.append(Failure("query_tract_is_error", f"Tract(trs={trs!r}).trs_is_error(twp={tw}, rge={rg}, sec={sc}) = {got}", **ctx))
        else:
            cont = TRSList([trs, strings["valid"]]) if how == "trslist_filter_errors" else TractList([Tract("NE/4", trs=trs), Tract("W/2", trs=strings["valid"])])
            sel = cont.filter_errors(twp=tw, rge=rg, sec=sc, undef=undef)
            want_sel = [trs] if (want_err or (undef and want_und)) else []
            if [x.trs for x in sel] != want_sel:
                fails.append(Failure("query_filter_errors", f"{how}: filter_errors(twp={tw}, rge={rg}, sec={sc}, undef={undef}) on [{trs!r}, valid] selected {[x.trs for x in sel]}", **ctx))
    # a Tract made by hand with such a string carries no flag, and is therefore not flawed (flawed <=> error flag, also for tracts)
    from pytrs import Tract as _Tract
    for which, trs in strings.items():
        if trs:
            lone = _Tract("NE/4", trs=trs)
            check_flag_lists(lone, f"Tract(trs={trs!r})", fails, ctx)
            lone2 = _Tract.from_twprgesec("NE/4", c["twp"], "1A" if which == "twprge_error" else c["rge"], c["sec"])
            check_flag_lists(lone2, "Tract.from_twprgesec(...)", fails, ctx)
    d = PLSSDesc(text, config=c["config"])
    check_flag_lists(d, "PLSSDesc", fails, ctx)
    bad = [t.trs for t in d.tracts if "XX" in t.trs]
    _last["flags"] = len(d.e_flags) + len(d.w_flags)
    _last["error_tract"] = bool(bad)
    if bad and not d.e_flags:
        fails.append(Failure("error_tract_without_flag", f"{text!r} [{c['config']}]: tracts {bad} have an undecipherable Twp/Rge/Sec but the description has no error flag (flawed={d.desc_is_flawed})",
                             tracts=[t.trs for t in d.tracts], **ctx))
    if c["shape"] == "complete" and (bad or d.e_flags):
        fails.append(Failure("spurious_error", f"{text!r} [{c['config']}]: tracts {[t.trs for t in d.tracts]} e_flags {d.e_flags}", **ctx))
    for t in d.tracts:
        if any(f not in t.e_flags for f in d.e_flags) or any(f not in t.w_flags for f in d.w_flags):
            fails.append(Failure("flag_not_shared_after_queries", f"{text!r}: description flags {d.e_flags + d.w_flags} are not all on tract {t.trs}", **ctx))
            break
    return fails


SUBS = [
    Sub("typing", oracle_typing, strategy=lambda tier: parsing.CASE, nontrivial=nontrivial, classes=classes_typing,
        render=parsing.render, n={"quick": 1200, "thorough": 12000}, shards={"quick": 8, "thorough": 16}, text_keys=("text",),
        essential=("gen=soup", "gen=damaged", "has_flags", "cfg=segment", "cfg=sec_colon_cautious")),
    Sub("planted", oracle_planted, strategy=lambda tier: planted(), nontrivial=nontrivial, validate=validate_planted,
        classes=lambda c: [f"kind={k}" for k, _ in c["plants"]] + [f"config={c['config']}", f"layout={c['d']['layout']}", f"strip={c.get('strip')}"],
        render=lambda c: {"text": planted_text(c), "plants": c["plants"], "config": c["config"]},
        n={"quick": 600, "thorough": 8000}, shards={"quick": 4, "thorough": 16},
        essential=tuple(f"kind={k}" for k in TRIGGERS) + ("config=copy_all", "strip=twprge", "strip=sections")),
    Sub("after_queries", oracle_queries, strategy=lambda tier: QUERY_CASE, nontrivial=lambda c: bool(_last.get("error_tract")) and bool(c["queries"]),
        classes=lambda c: [f"shape={c['shape']}", "error_tract" if _last.get("error_tract") else "no_error_tract"] + [f"query={q[0]}" for q in c["queries"]],
        render=lambda c: {"text": query_text(c), "config": c["config"], "queries": [list(q[:2]) for q in c["queries"]]},
        n={"quick": 800, "thorough": 10000}, shards={"quick": 4, "thorough": 16},
        essential=("shape=no_section", "shape=no_twprge", "error_tract", "query=trs_is_error", "query=tractlist_filter_errors")),
]

# thorough tier: coverage-guided fuzzing (atheris / libFuzzer) of the same oracle, see fuzz/fuzz_parse.py
from vlib import fuzzrun  # noqa: E402
_fuzz_last = {}
SUBS.append(fuzzrun.fuzz_sub(ID, lambda: next(s for s in SUBS if s.name == "typing"), _fuzz_last))
