"""C11 - copy_all, forced or as fallback, keeps the whole text in exactly one tract."""
import re

from hypothesis import strategies as st

from vlib.core import Sub, Failure
from vlib import env, configs, parsing, soup, grammar as G

pytrs = env.import_pytrs()
from pytrs import PLSSDesc, Config  # noqa: E402

ID = "C11"
RULE = (
    "(requested) the C03 text space x five ways of asking for copy_all {init keyword layout=, config text 'copy_all', "
    "config text 'layout.copy_all', Config object, parse(layout='copy_all') committed and not} x other settings; "
    "(fallback) texts built to leave no other option - no Twp/Rge, no numbered section, colon-less sections under "
    "sec_colon_required, the section preceded by of/in in a section-first layout; (segmented) 2..3 Twp/Rge segments under `segment`, "
    "each normal, colon-less under sec_colon_required, without a section or with a bare section word: a segment that has no other "
    "option gives exactly one tract carrying that segment's text (never the complete text, never a borrowed section); (no_double) the C03 space "
    "under all settings, checking that no two tracts carry the complete text. Non-trivial: the text contains something a "
    "normal layout would split (a section-like and a Twp/Rge-like token), or a fallback is taken. Distinct = distinct case."
)
ASSUMPTIONS = [
    "For a deduced (non-requested) layout the fallback description may differ from the preprocessed text by the leading/trailing punctuation and connective words that every tract description is cleaned of; nothing else may be missing.",
]

CHANNELS = ["init_kw", "config_bare", "config_long", "config_obj", "parse_commit", "parse_nocommit", "config_assign",
            # the keyword against a config that names another layout; Config objects built without any text; a one-off other layout in between
            "init_kw_over_config_layout", "parse_over_config_layout", "config_from_kwargs", "config_from_dict", "config_attribute", "init_kw_after_one_off_layout",
            # later activity on the object, or on a Config object it shares, that names no layout leaves the request in force
            "init_kw_then_unrelated_config", "config_then_unrelated_config", "init_kw_then_deduce_layout", "shared_config_object_used_with_other_layout"]
OTHER = configs.config_values(exclude=("wait_to_parse", "layout"))

REQ_CASE = st.fixed_dictionaries({"text": soup.ANY_TEXT, "channel": st.sampled_from(CHANNELS), "cfg": OTHER})

_last = {}
TR_LIKE = re.compile(r"\d\s*[NSns]", re.I)
SEC_LIKE = re.compile(r"(sec|§)\S*\s*\d", re.I)


def oracle_requested(c):
    text = c["text"]["text"]
    other = configs.to_text(c["cfg"])
    ch = c["channel"]
    join = lambda a, b: ",".join(x for x in (a, b) if x)  # noqa: E731
    if ch == "init_kw":
        d = PLSSDesc(text, layout="copy_all", config=other)
        tracts, layout = d.tracts, d.current_layout
    elif ch == "config_bare":
        d = PLSSDesc(text, config=join(other, "copy_all"))
        tracts, layout = d.tracts, d.current_layout
    elif ch == "config_long":
        d = PLSSDesc(text, config=join("layout.copy_all", other))
        tracts, layout = d.tracts, d.current_layout
    elif ch == "config_obj":
        d = PLSSDesc(text, config=Config(join(other, "layout=copy_all")))
        tracts, layout = d.tracts, d.current_layout
    elif ch == "config_assign":
        d = PLSSDesc(text, wait_to_parse=True)
        d.config = join(other, "copy_all")
        d.parse()
        tracts, layout = d.tracts, d.current_layout
    elif ch == "init_kw_over_config_layout":
        d = PLSSDesc(text, layout="copy_all", config=join(other, "TRS_desc"))
        tracts, layout = d.tracts, d.current_layout
    elif ch == "parse_over_config_layout":
        d = PLSSDesc(text, config=join("layout.desc_STR", other), wait_to_parse=True)
        d.parse(layout="copy_all")
        tracts, layout = d.tracts, d.current_layout
    elif ch == "config_from_kwargs":
        cobj = Config(other)
        d = PLSSDesc(text, config=Config.from_kwargs(**dict({k: getattr(cobj, k) for k in configs.ALL if getattr(cobj, k, None) is not None}, layout="copy_all")))
        tracts, layout = d.tracts, d.current_layout
    elif ch == "config_from_dict":
        cobj = Config(other)
        d = PLSSDesc(text, config=Config.from_dict(dict({k: getattr(cobj, k) for k in configs.ALL if getattr(cobj, k, None) is not None}, layout="copy_all")))
        tracts, layout = d.tracts, d.current_layout
    elif ch == "config_attribute":
        cobj = Config(other)
        cobj.layout = "copy_all"
        d = PLSSDesc(text, config=cobj)
        tracts, layout = d.tracts, d.current_layout
    elif ch == "init_kw_then_unrelated_config":
        d = PLSSDesc(text, layout="copy_all", config=other, wait_to_parse=True)
        d.config = join(other, "clean_qq")
        d.parse()
        tracts, layout = d.tracts, d.current_layout
    elif ch == "config_then_unrelated_config":
        d = PLSSDesc(text, config=join(other, "copy_all"))
        d.config = join(other, "n,w")
        d.parse()
        tracts, layout = d.tracts, d.current_layout
    elif ch == "init_kw_then_deduce_layout":
        d = PLSSDesc(text, layout="copy_all", config=other, wait_to_parse=True)
        d.deduce_layout()
        d.deduce_layout(candidates=["TRS_desc", "desc_STR"])
        d.parse()
        tracts, layout = d.tracts, d.current_layout
    elif ch == "shared_config_object_used_with_other_layout":
        cobj = Config(join(other, "copy_all"))
        PLSSDesc("T154N-R97W Sec 14: NE/4, Sec 15: W/2", config=cobj, layout="TRS_desc")
        d = PLSSDesc(text, config=cobj)
        tracts, layout = d.tracts, d.current_layout
    elif ch == "init_kw_after_one_off_layout":
        d = PLSSDesc(text, layout="copy_all", config=other)
        d.parse(layout="TRS_desc")
        d.parse()
        tracts, layout = d.tracts, d.current_layout
    elif ch == "parse_commit":
        d = PLSSDesc(text, config=other)
        d.parse(layout="copy_all")
        tracts, layout = d.tracts, d.current_layout
    else:
        d = PLSSDesc(text, config=other)
        tracts, layout = d.parse(layout="copy_all", commit=False), "copy_all"
    fails = []
    ctx = dict(text=text, channel=ch, other=other, got=[(t.trs, t.desc) for t in tracts], pp_desc=d.pp_desc)
    if len(tracts) != 1:
        fails.append(Failure(f"requested_count", f"copy_all via {ch}: {len(tracts)} tracts for {text!r} [{other}]", **ctx))
    elif tracts[0].desc != d.pp_desc:
        fails.append(Failure(f"requested_desc", f"copy_all via {ch}: desc {tracts[0].desc!r} is not the whole preprocessed text {d.pp_desc!r}", **ctx))
    if layout != "copy_all":
        fails.append(Failure(f"requested_layout", f"copy_all via {ch}: current_layout is {layout!r}", **ctx))
    return fails


def classes_requested(c):
    t = c["text"]["text"]
    out = [f"channel={c['channel']}", f"gen={c['text']['kind']}"]
    if TR_LIKE.search(t) and SEC_LIKE.search(t):
        out.append("splittable")
    return out


# ---------------------------------------------------------------------------
# fallback

_BLOCKS = st.sampled_from(["NE/4", "Lots 1 - 3", "That part lying north of the river", "W/2, less and except the road", "ALL",
                           "Beginning at a point 100 feet west of the corner"])
_TR = st.sampled_from(["T154N-R97W", "Township 154 North, Range 97 West", "t1s-r2e", "T12N R100E"])
_SECW = st.sampled_from(["Sec", "Section", "Sec.", "§"])
_SEP = st.sampled_from([", ", "\n", "; ", " "])


@st.composite
def fallback_case(draw):
    reason = draw(st.sampled_from(["no_twprge", "no_section", "colon_required", "illegal_prior", "secword_without_number", "nothing", "no_section_amid_text"]))
    via = "config"
    cfg = dict(draw(configs.config_values(exclude=("wait_to_parse", "layout", "segment", "sec_colon_required", "sec_colon_cautious", "ocr_scrub"))))
    n = draw(st.integers(1, 3))
    parts = []
    if reason == "no_twprge":
        for _ in range(n):
            if draw(st.booleans()):
                parts.append(f"{draw(_SECW)} {draw(st.integers(1, 36))}: {draw(_BLOCKS)}")
            else:
                parts.append(f"{draw(_BLOCKS)} of {draw(_SECW)} {draw(st.integers(1, 36))}")
        text = draw(_SEP).join(parts)
    elif reason == "no_section":
        for _ in range(n):
            parts.append(f"{draw(_TR)}{draw(_SEP)}{draw(_BLOCKS)}")
        text = draw(_SEP).join(parts)
    elif reason == "no_section_amid_text":
        # one Twp/Rge with text on either side of it and no numbered section anywhere (the words 'Section' / 'Second' may occur)
        pre = draw(st.sampled_from(["That part of Section line road in ", "Some preamble, ", "Tract in the Second Addition, ", "Part of the townsite lying in ", ""]))
        post = draw(st.sampled_from([" lying north of the river", " Section line road", ", lying west of the highway", "", " being the second parcel"]))
        text = f"{pre}{draw(_TR)}{post}"
        cfg.pop("sec_within", None)
        for k in draw(st.sampled_from([(), ("segment",), ("sec_within",), ("segment", "sec_within")])):
            cfg[k] = True
    elif reason == "colon_required":
        cfg["sec_colon_required"] = True
        # how the setting reaches the parse: configured; or as a keyword of parse(), also over a configuration that is merely cautious
        via = draw(st.sampled_from(["config", "config", "parse_kw", "parse_kw_over_cautious_config"]))
        tr = draw(_TR)
        secs = [f"{draw(_SECW)} {draw(st.integers(1, 36))} {draw(_BLOCKS)}" for _ in range(n)]
        text = (tr + draw(_SEP) + draw(_SEP).join(secs)) if draw(st.booleans()) else (draw(_SEP).join(secs) + ", " + tr)
    elif reason == "illegal_prior":
        tr = draw(_TR)
        word = draw(st.sampled_from(["of", "in"]))
        text = f"{tr} {word} {draw(_SECW)} {draw(st.integers(1, 36))}: {draw(_BLOCKS)}"
    elif reason == "secword_without_number":
        text = f"{draw(_TR)} {draw(_SECW)}{draw(st.sampled_from(['', ':', ' ' + draw(_BLOCKS)]))}"
    else:
        text = draw(st.sampled_from(["", " ", "NE/4", "QJXKQ", "40 acres", "\n"]))
    # leading / trailing artifacts that a tract description is normally cleaned of
    prefix = draw(st.sampled_from(["", "", "", ", ", "; ", "- "])) if reason in ("no_twprge", "no_section", "nothing") else ""
    text = prefix + text + draw(st.sampled_from(["", "", "", ",", " of", ", all in", ";", " and the", " in", ":"]))
    if reason in ("no_twprge", "no_section", "nothing") and draw(st.integers(0, 3)) == 0:
        cfg["segment"] = True        # copy_all is deduced for the whole text, which segment must not cut up
    return {"reason": reason, "text": text, "cfg": cfg, "via": via}


TAIL_OK = re.compile(r"([\s,;:\-–—\.]|\b(the|all in|all of|of|in|and)\b)*", re.I)
HEAD_OK = re.compile(r"[\s,;:\-–—\.]*")


def whole_text_modulo_cleanup(desc, pp):
    if desc == pp:
        return True
    i = pp.find(desc) if desc else 0
    if i < 0:
        return False
    head, tail = pp[:i], pp[i + len(desc):]
    return bool(HEAD_OK.fullmatch(head)) and bool(TAIL_OK.fullmatch(tail))


def oracle_fallback(c):
    text = c["text"]
    ctext = configs.to_text(c["cfg"])
    via = c.get("via", "config")
    if via == "config":
        d = PLSSDesc(text, config=ctext)
    else:
        under = {k: v for k, v in c["cfg"].items() if k != "sec_colon_required"}
        if via == "parse_kw_over_cautious_config":
            under["sec_colon_cautious"] = True
        ctext = configs.to_text(under)
        d = PLSSDesc(text, config=ctext, wait_to_parse=True)
        d.parse(sec_colon_required=True)
        ctext += " + parse(sec_colon_required=True)"
    fails = []
    got = [(t.trs, t.desc) for t in d.tracts]
    ctx = dict(text=text, config=ctext, reason=c["reason"], got=got, pp_desc=d.pp_desc, e_flags=list(d.e_flags), layout=d.current_layout)
    if len(d.tracts) != 1:
        fails.append(Failure("fallback_count", f"{c['reason']}: {len(d.tracts)} tracts for {text!r} [{ctext}]: {got}", **ctx))
        return fails
    t = d.tracts[0]
    if d.current_layout == "copy_all":
        # copy_all deduced for the whole description: the text is kept verbatim
        if t.desc != d.pp_desc:
            fails.append(Failure("fallback_desc_verbatim", f"{c['reason']}: copy_all was deduced but desc {t.desc!r} is not the preprocessed text {d.pp_desc!r}", **ctx))
    elif c["reason"] == "no_section_amid_text" and (c["cfg"].get("sec_within") or c["cfg"].get("segment")):
        # under segment the fallback belongs to the segment that begins at the Twp/Rge (what follows is a matter for C04), under
        # sec_within the text around the Twp/Rge is re-attached (C20); here: one tract, and flagged
        pass
    elif not whole_text_modulo_cleanup(t.desc, d.pp_desc):
        fails.append(Failure("fallback_desc", f"{c['reason']}: desc {t.desc!r} is not the whole preprocessed text {d.pp_desc!r}", **ctx))
    numeric = t.twp_num is not None and t.rge_num is not None and t.sec_num is not None
    if not numeric and not d.e_flags:
        fails.append(Failure("fallback_no_error_flag", f"{c['reason']}: fallback tract {t.trs} for {text!r} carries no error flag", **ctx))
    if bool(d.desc_is_flawed) != bool(d.e_flags):
        fails.append(Failure("fallback_flawed", f"desc_is_flawed={d.desc_is_flawed} e_flags={d.e_flags}", **ctx))
    return fails


# ---------------------------------------------------------------------------
# no parse returns two tracts that both carry the complete text

def oracle_no_double(c):
    d, tracts = parsing.make_plss(c, parse_qq=False)
    pp = d.pp_desc if c["entry"] != "parse_kw_nocommit" else PLSSDesc(c["text"]["text"], config=configs.to_text({k: v for k, v in c["cfg"].items() if k in ("default_ns", "default_ew", "ocr_scrub")})).pp_desc
    whole = [t for t in tracts if t.desc == pp]
    _last["n"] = len(tracts)
    if len(pp.strip()) > 0 and len(whole) > 1:
        return [Failure("two_tracts_whole_text", f"{len(whole)} tracts carry the complete text {pp!r}", **parsing.render(c))]
    return []


# fallbacks inside a segmented parse: each Twp/Rge segment falls back on its own ------------------------------------------

SEG_SHAPES = ["normal", "normal", "colonless", "no_section", "secword_only"]
SEG_CASE = st.fixed_dictionaries({
    "segs": st.lists(st.fixed_dictionaries({"shape": st.sampled_from(SEG_SHAPES), "block": _BLOCKS, "block2": _BLOCKS, "sec": st.integers(1, 35), "secw": _SECW,
                                            "two": st.booleans()}), min_size=2, max_size=3),
    "twp0": st.integers(1, 900), "sep": st.sampled_from(["\n", "\n\n", "; ", ", "]),
    "extra": st.sampled_from(["", "", "sec_within", "parse_qq", "sec_colon_cautious"]),
})


def seg_texts(c):
    out = []
    for i, g in enumerate(c["segs"]):
        tr = f"T{c['twp0'] + i}N-R97W"
        if g["shape"] == "normal":
            body = f"{g['secw']} {g['sec']}: {g['block']}" + (f", {g['secw']} {g['sec'] + 1}: {g['block2']}" if g["two"] else "")
        elif g["shape"] == "colonless":
            body = f"{g['secw']} {g['sec']} {g['block']}" + (f", {g['secw']} {g['sec'] + 1} {g['block2']}" if g["two"] else "")
        elif g["shape"] == "no_section":
            body = g["block"]
        else:
            body = f"{g['secw']}" + (f" {g['block']}" if g["two"] else "")
        out.append(f"{tr} {body}")
    return out


def seg_config(c):
    parts = ["segment"]
    if any(g["shape"] == "colonless" for g in c["segs"]):
        parts.append("sec_colon_required")
    if c["extra"] and not (c["extra"] == "sec_colon_cautious" and "sec_colon_required" in parts):
        parts.append(c["extra"])
    return ",".join(parts)


def oracle_segmented(c):
    segs = seg_texts(c)
    text = c["sep"].join(segs)
    cfg = seg_config(c)
    d = PLSSDesc(text, config=cfg)
    got = [(t.trs, t.desc) for t in d.tracts]
    ctx = dict(text=text, config=cfg, got=got, e_flags=list(d.e_flags), shapes=[g["shape"] for g in c["segs"]])
    fails = []
    pp = d.pp_desc
    whole = [t for t in d.tracts if t.desc == pp]
    if len(whole) > 1:
        fails.append(Failure("segmented_two_whole", f"{text!r} [{cfg}]: {len(whole)} tracts carry the complete text", **ctx))
    if not any(g["shape"] == "normal" for g in c["segs"]):
        return fails            # (which segments are recognised at all then depends on the layout deduced for the text as a whole)
    # every fallback segment: exactly one tract, under that segment's Twp/Rge, carrying that segment's text and nothing of the others
    for i, (g, seg) in enumerate(zip(c["segs"], segs)):
        twprge = f"{c['twp0'] + i}n97w"
        mine = [t for t in d.tracts if t.twprge == twprge]
        if g["shape"] == "normal":
            want = [f"{g['sec']:02d}"] + ([f"{g['sec'] + 1:02d}"] if g["two"] else [])
            if [t.sec for t in mine] != want:
                fails.append(Failure("segmented_normal_segment", f"{text!r} [{cfg}]: segment {seg!r} gives sections {[t.sec for t in mine]}, expected {want}", **ctx))
            continue
        if len(mine) != 1:
            fails.append(Failure("segmented_fallback_count", f"{text!r} [{cfg}]: segment {seg!r} ({g['shape']}) gives {len(mine)} tracts {[(t.trs, t.desc) for t in mine]}, expected one", **ctx))
            continue
        t = mine[0]
        if t.desc == pp or not whole_text_modulo_cleanup(t.desc, seg):
            fails.append(Failure("segmented_fallback_desc", f"{text!r} [{cfg}]: the fallback tract of segment {seg!r} is described {t.desc!r}", **ctx))
        if t.sec_num is None and not d.e_flags:
            fails.append(Failure("segmented_fallback_no_error_flag", f"{text!r} [{cfg}]: fallback tract {t.trs} without any error flag", **ctx))
        if g["shape"] in ("no_section", "secword_only") and t.sec_num is not None:
            fails.append(Failure("segmented_fallback_borrowed_section", f"{text!r} [{cfg}]: segment {seg!r} names no section but its tract is {t.trs}", **ctx))
    return fails


SUBS = [
    Sub("requested", oracle_requested, strategy=lambda tier: REQ_CASE, classes=classes_requested,
        nontrivial=lambda c: bool(TR_LIKE.search(c["text"]["text"]) and SEC_LIKE.search(c["text"]["text"])),
        render=lambda c: {"text": c["text"]["text"], "channel": c["channel"], "other": configs.to_text(c["cfg"])},
        n={"quick": 800, "thorough": 10000}, shards={"quick": 6, "thorough": 16}, text_keys=("text",),
        essential=tuple(f"channel={ch}" for ch in CHANNELS) + ("splittable",)),
    Sub("fallback", oracle_fallback, strategy=lambda tier: fallback_case(), classes=lambda c: [f"reason={c['reason']}"] + ([f"via={c['via']}"] if c.get("via", "config") != "config" else []) + (["segment"] if c["cfg"].get("segment") else []) + (["sec_within"] if c["cfg"].get("sec_within") else []),
        render=lambda c: {"text": c["text"], "config": configs.to_text(c["cfg"]), "reason": c["reason"]},
        n={"quick": 800, "thorough": 10000}, shards={"quick": 4, "thorough": 16},
        essential=("reason=no_twprge", "reason=no_section", "reason=colon_required", "reason=illegal_prior", "reason=secword_without_number", "reason=no_section_amid_text", "segment", "sec_within")),
    Sub("segmented", oracle_segmented, strategy=lambda tier: SEG_CASE,
        classes=lambda c: [f"shape={g['shape']}" for g in c["segs"]] + [f"extra={c['extra']}", f"nsegs={len(c['segs'])}"],
        nontrivial=lambda c: any(g["shape"] != "normal" for g in c["segs"]) and any(g["shape"] == "normal" for g in c["segs"]),
        render=lambda c: {"text": c["sep"].join(seg_texts(c)), "config": seg_config(c)},
        n={"quick": 600, "thorough": 8000}, shards={"quick": 4, "thorough": 16},
        essential=("shape=colonless", "shape=no_section", "shape=secword_only", "nsegs=3")),
    Sub("no_double", oracle_no_double, strategy=lambda tier: parsing.CASE, classes=parsing.text_classes,
        nontrivial=lambda c: _last.get("n", 0) >= 1 and bool(c["cfg"]),
        render=parsing.render, n={"quick": 800, "thorough": 10000}, shards={"quick": 6, "thorough": 16}, text_keys=("text",)),
]

# thorough tier: coverage-guided fuzzing (atheris / libFuzzer) of the same oracle, see fuzz/fuzz_parse.py
from vlib import fuzzrun  # noqa: E402
_fuzz_last = {}
SUBS.append(fuzzrun.fuzz_sub(ID, lambda: next(s for s in SUBS if s.name == "no_double"), _fuzz_last))
