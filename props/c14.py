"""C14 - re-parsing is idempotent and commit=False has no side effects."""
from collections import Counter

from hypothesis import strategies as st

from vlib.core import Sub, Failure
from vlib import env, configs, canary

pytrs = env.import_pytrs()
from pytrs import PLSSDesc, Tract  # noqa: E402

ID = "C14"
RULE = (
    "Operation histories (model-based, <= 10 steps, generated as one shrinkable value) applied to one PLSSDesc or one Tract whose "
    "text is built to raise tract-level flags (duplicate lots/QQs, non-sequential lot ranges, duplicate acreages) and "
    "description-level flags (multi-sections, exception/depth wording, unused text). Operations: parse(commit True|False, "
    "keyword overrides), parse_tracts(keywords | config), preprocess(commit), config assignment, sort_tracts, filter_errors. "
    "After every step the harness compares a deep snapshot of all public attributes with (a) the snapshot before, for "
    "commit=False calls, (b) a freshly constructed object given the accumulated settings and the same final call, (c) the snapshot taken "
    "at an earlier committed parse of the same object under the same effective settings; after every history a fixed set of canary parses "
    "(OCR-mangled, direction-less, colon-less, sec_within, segmented texts; tracts under several settings) must still give what they gave "
    "before the first history ran in the process. "
    "Non-trivial: >= 2 committed parses and >= 1 non-committed call on an object that carries at least one flag. "
    "Distinct = distinct (text, history)."
)
ASSUMPTIONS = [
    "Flags are compared as multisets, tracts / lots / aliquots in order (DESIGN 6.7).",
    "Each .config assignment restates all settings still wanted (the library applies only the settings named in the newest config to the object but hands the newest Config object down to its tracts, so a partial re-assignment has no single documented meaning).",
]

FLAGGY_BLOCKS = ["Lots 1, 1", "Lots 5 - 1", "Lot 1(40.0), Lot 1(39.9)", "NE/4, NE/4", "N/2NE/4, NE/4NE/4", "Lots 1 - 3, Lot 2, S/2N/2",
                 "NE, NE", "Lot 4, less and except the wellbore", "W/2, limited to depths below the base of the Dakota formation",
                 "N/2 of Lot 1, N/2 of Lot 1", "Lots 3 - 1, NE/4, SW/4, NE/4", "ALL", "That part lying north of the river"]
SEC_LISTS = ["Sec {a}", "Sec {a}", "Secs {a} - {b}", "Sections {a} and {b}", "Sec {b} - {a}"]

PLSS_KW = st.fixed_dictionaries({}, optional={
    "parse_qq": st.booleans(), "clean_qq": st.booleans(), "segment": st.booleans(), "sec_colon_cautious": st.booleans(),
    "qq_depth_min": st.sampled_from([1, 2, 3]), "qq_depth": st.sampled_from([1, 2]), "break_halves": st.booleans(),
    "layout": st.sampled_from(["TRS_desc", "copy_all"]), "sec_within": st.booleans(), "default_ns": st.sampled_from(["n", "s"]),
    "ocr_scrub": st.booleans(),
})
TRACT_KW = st.fixed_dictionaries({}, optional={
    "clean_qq": st.booleans(), "suppress_lot_divs": st.booleans(), "qq_depth_min": st.sampled_from([1, 2, 3]),
    "qq_depth": st.sampled_from([1, 2]), "break_halves": st.booleans(),
})
PLSS_CFG = configs.config_values(exclude=("wait_to_parse", "ocr_scrub", "default_ns", "default_ew", "sec_colon_required", "qq_depth_max"), max_depth=3)
TRACT_CFG = configs.config_values(exclude=("wait_to_parse", "ocr_scrub", "default_ns", "default_ew", "layout", "segment", "sec_within",
                                           "sec_colon_required", "sec_colon_cautious", "qq_depth_max"), max_depth=3)

PLSS_OP = st.one_of(
    st.tuples(st.just("parse"), st.booleans(), PLSS_KW),
    st.tuples(st.just("parse"), st.just(True), st.just({})),
    st.tuples(st.just("parse_tracts"), TRACT_KW),
    st.tuples(st.just("parse_tracts_cfg"), TRACT_CFG),
    st.tuples(st.just("preprocess"), st.booleans()),
    st.tuples(st.just("config"), PLSS_CFG),
    st.tuples(st.just("sort"), st.sampled_from(["i", "s.rev", "t,r,s", "s,i.rev"])),
    st.tuples(st.just("filter_errors")),
).map(list)


@st.composite
def plss_text(draw):
    n = draw(st.integers(1, 3))
    parts = []
    a = 1
    for _ in range(n):
        sec = draw(st.sampled_from(SEC_LISTS)).format(a=a, b=a + 2)
        a += 4
        parts.append(f"{sec}: {draw(st.sampled_from(FLAGGY_BLOCKS))}")
    tr = draw(st.sampled_from(["T154N-R97W", "Township 154 North, Range 97 West", "T154-R97W", "TI54N-R97W", "Township lS4 North, Range 97 West"]))
    text = tr + draw(st.sampled_from([" ", "\n"])) + draw(st.sampled_from(["\n", ", ", "; "])).join(parts)
    if draw(st.integers(0, 4)) == 0:
        text = "Stray words " + text
    if draw(st.integers(0, 7)) == 0:
        # a shape on which sec_within decides where the text goes
        text = draw(st.sampled_from(["That part of Sec 14, T154N-R97W lying north of the river, Lots 1, 1",
                                     "T154N-R97W All that portion of the NE/4 of Section 14 lying within the right-of-way",
                                     "NE/4, NE/4 of Sec 14, TI54N-R97W, containing 40 acres"]))
    return text


PLSS_CASE = st.fixed_dictionaries({"text": plss_text(), "init": PLSS_CFG, "ops": st.lists(PLSS_OP, min_size=1, max_size=10)})
TRACT_OP = st.one_of(
    st.tuples(st.just("parse"), st.booleans(), TRACT_KW),
    st.tuples(st.just("parse"), st.just(True), st.just({})),
    st.tuples(st.just("preprocess"), st.booleans(), st.sampled_from([None, True, False])),
    st.tuples(st.just("config"), TRACT_CFG),
).map(list)
TRACT_CASE = st.fixed_dictionaries({"text": st.sampled_from(FLAGGY_BLOCKS), "init": TRACT_CFG, "ops": st.lists(TRACT_OP, min_size=1, max_size=10),
                                    "inherited": st.booleans()})

SETTINGS = configs.ALL


def tract_snap(t, with_id=False):
    d = {
        "trs": t.trs, "desc": t.desc, "pp_desc": t.pp_desc, "lots": list(t.lots), "qqs": list(t.qqs), "lot_acres": dict(t.lot_acres),
        "aliquots_whole": list(t.aliquots_whole), "w_flags": list(map(str, t.w_flags)), "e_flags": list(map(str, t.e_flags)),
        "w_flag_lines": list(map(str, t.w_flag_lines)), "e_flag_lines": list(map(str, t.e_flag_lines)),
        "parse_complete": t.parse_complete, "orig_index": t.orig_index, "orig_desc": t.orig_desc, "source": t.source,
        "config": t.config.decompile_to_text(),
        "settings": {k: getattr(t, k, None) for k in configs.TRACT_SETTINGS},
    }
    if with_id:
        d["id"] = id(t)
    return d


def plss_snap(d, with_id=False):
    return {
        "orig_desc": d.orig_desc, "pp_desc": d.pp_desc, "tracts": [tract_snap(t, with_id) for t in d.tracts],
        "w_flags": list(map(str, d.w_flags)), "e_flags": list(map(str, d.e_flags)), "w_flag_lines": list(map(str, d.w_flag_lines)),
        "e_flag_lines": list(map(str, d.e_flag_lines)), "current_layout": d.current_layout, "layout": d.layout,
        "config": d.config.decompile_to_text(), "settings": {k: getattr(d, k, None) for k in SETTINGS}, "source": d.source,
        "flawed": d.desc_is_flawed,
    }


def observable_tract(ts):
    """What must agree with a fresh object: results in order, flags as multisets."""
    return {"trs": ts["trs"], "desc": ts["desc"], "pp_desc": ts["pp_desc"], "lots": ts["lots"], "qqs": ts["qqs"],
            "lot_acres": ts["lot_acres"], "aliquots_whole": ts["aliquots_whole"],
            "w_flags": sorted(ts["w_flags"]), "e_flags": sorted(ts["e_flags"]),
            "w_flag_lines": sorted(ts["w_flag_lines"]), "e_flag_lines": sorted(ts["e_flag_lines"])}


def observable_plss(ps):
    return {"pp_desc": ps["pp_desc"], "tracts": [observable_tract(t) for t in ps["tracts"]], "w_flags": sorted(ps["w_flags"]),
            "e_flags": sorted(ps["e_flags"]), "w_flag_lines": sorted(ps["w_flag_lines"]), "e_flag_lines": sorted(ps["e_flag_lines"]),
            "current_layout": ps["current_layout"], "flawed": ps["flawed"]}


def first_diff(a, b, path=""):
    if type(a) != type(b):
        return f"{path}: {a!r} != {b!r}"
    if isinstance(a, dict):
        for k in a:
            if k not in b:
                return f"{path}.{k}: missing"
            r = first_diff(a[k], b[k], f"{path}.{k}")
            if r:
                return r
        return None
    if isinstance(a, list):
        if len(a) != len(b):
            return f"{path}: length {len(a)} != {len(b)}: {a!r:.300} vs {b!r:.300}"
        for i, (x, y) in enumerate(zip(a, b)):
            r = first_diff(x, y, f"{path}[{i}]")
            if r:
                return r
        return None
    return None if a == b else f"{path}: {a!r:.300} != {b!r:.300}"


def merge_kw_into_settings(settings, kw):
    """The configuration that says what the keywords say: used to compare parse(**kw) with a fresh object configured that way."""
    out = dict(settings)
    for k, v in kw.items():
        out[k] = v
    # an exact depth and a min/max pair exclude each other: the kind given as keyword wins
    if "qq_depth" in kw:
        out.pop("qq_depth_min", None)
        out.pop("qq_depth_max", None)
    elif "qq_depth_min" in kw or "qq_depth_max" in kw:
        out.pop("qq_depth", None)
    return out


_last = {}


def oracle_plss(c):
    canary.arm()
    text = c["text"]
    accum = dict(c["init"])
    d = PLSSDesc(text, config=configs.to_text(accum))
    fails = []
    seen = {}          # effective settings of a committed parse -> what the object looked like then
    last_parse_kw = {}
    parse_cfg = dict(accum)          # the settings that were in force at the last committed parse
    tract_accum, tracts_kw, sort_keys = {}, None, []
    pp_recommitted = False           # preprocess(commit=True) since the last committed parse
    committed, noncommitted = 1, 0
    had_flags = False

    def fresh_final():
        f = PLSSDesc(text, config=configs.to_text(parse_cfg), wait_to_parse=True)
        f.parse(**last_parse_kw)
        if tract_accum or tracts_kw is not None:
            kw = dict(tracts_kw or {})
            if tract_accum:
                f.parse_tracts(config=configs.to_text(tract_accum), **kw)
            else:
                f.parse_tracts(**kw)
        for sk in sort_keys:          # stable sorts: earlier ones decide the ties of later ones
            f.sort_tracts(sk)
        if pp_recommitted:
            f.config = configs.to_text(accum)
            f.preprocess(commit=True)
        return f

    def compare(step, what):
        f = fresh_final()
        diff = first_diff(observable_plss(plss_snap(f)), observable_plss(plss_snap(d)))
        if diff:
            kind = diff.split(":")[0].split(".")[-1].split("[")[0]
            fails.append(Failure(f"plss_{what}_differs_from_fresh:{kind}", f"step {step} {what}: object differs from a fresh object with the same settings at {diff}",
                                 text=text, ops=c["ops"][:step + 1], init=c["init"]))
            return False
        # (the fresh twin went the same way, so the comparison cannot see what both lose:) parsing a tract into lots and aliquots replaces
        # the results of its previous parse, not what the description handed down to it - each of the description's flags, with its
        # context line, is still on every tract
        for k, t in enumerate(d.tracts):
            for kind in ("w", "e"):
                lost = [ln for ln in getattr(d, f"{kind}_flag_lines") if ln not in getattr(t, f"{kind}_flag_lines")]
                lost_f = [fl for fl in getattr(d, f"{kind}_flags") if fl not in getattr(t, f"{kind}_flags")]
                if lost or lost_f:
                    fails.append(Failure(f"plss_{what}_lost_handed_down:{kind}_flag_lines", f"step {step} {what}: tract {k} ({t.trs}) no longer carries the description's {kind}_flags {lost_f} / lines {lost!r:.200}",
                                         text=text, ops=c["ops"][:step + 1], init=c["init"]))
                    return False
        return True

    for i, op in enumerate(c["ops"]):
        name = op[0]
        before = plss_snap(d, with_id=True)
        if name == "parse":
            commit, kw = op[1], dict(op[2])
            if commit:
                d.parse(**kw)
                parse_cfg = dict(accum)
                pp_recommitted = False
                last_parse_kw, tract_accum, tracts_kw, sort_keys = kw, {}, None, []
                committed += 1
                if not compare(i, "parse"):
                    break
                # the keywords say what a configuration could say: a fresh object configured that way and parsed plainly gives the same
                if kw:
                    merged = merge_kw_into_settings(parse_cfg, kw)
                    g = PLSSDesc(text, config=configs.to_text(merged))
                    og, od = observable_plss(plss_snap(g)), observable_plss(plss_snap(d))
                    for part in ("tracts", "current_layout", "pp_desc"):
                        if part == "tracts":
                            a = [{k: t[k] for k in ("trs", "desc", "lots", "qqs")} for t in og["tracts"]]
                            b = [{k: t[k] for k in ("trs", "desc", "lots", "qqs")} for t in od["tracts"]]
                        else:
                            a, b = og[part], od[part]
                        if a != b:
                            fails.append(Failure(f"plss_keywords_differ_from_configured:{part}", f"step {i}: parse({kw}) over {configs.to_text(parse_cfg)!r} gives {part} {b!r:.300}, a fresh object configured {configs.to_text(merged)!r} gives {a!r:.300}",
                                                 text=text, ops=c["ops"][:i + 1], init=c["init"]))
                            break
                    if fails:
                        break
                # the same settings as at an earlier committed parse of this object: the same results
                key = repr((sorted(parse_cfg.items()), sorted(kw.items())))
                now = observable_plss(plss_snap(d))
                if key in seen:
                    diff = first_diff(seen[key], now)
                    if diff:
                        fails.append(Failure("plss_same_settings_other_result", f"step {i}: parse({kw}) under settings used before on this object now differs at {diff}",
                                             text=text, ops=c["ops"][:i + 1], init=c["init"]))
                        break
                seen[key] = now
                # immediately again with the same arguments: nothing may change
                snap1 = plss_snap(d)
                d.parse(**kw)
                diff = first_diff(snap1, plss_snap(d))
                if diff:
                    fails.append(Failure("plss_reparse_changes", f"step {i}: a second identical parse() changed {diff}", text=text, ops=c["ops"][:i + 1], init=c["init"]))
                    break
            else:
                ret = d.parse(commit=False, **kw)
                noncommitted += 1
                diff = first_diff(before, plss_snap(d, with_id=True))
                if diff:
                    fails.append(Failure("plss_nocommit_side_effect", f"step {i}: parse(commit=False, {kw}) changed {diff}", text=text, ops=c["ops"][:i + 1], init=c["init"]))
                    break
                f = PLSSDesc(text, config=configs.to_text(accum), wait_to_parse=True)
                want = f.parse(commit=False, **kw)
                a = [(t.trs, t.desc, list(t.lots), list(t.qqs)) for t in ret]
                b = [(t.trs, t.desc, list(t.lots), list(t.qqs)) for t in want]
                if a != b:
                    fails.append(Failure("plss_nocommit_return", f"step {i}: parse(commit=False, {kw}) returned {a}, a fresh object returns {b}", text=text, ops=c["ops"][:i + 1], init=c["init"]))
                    break
        elif name == "parse_tracts":
            tracts_kw = dict(op[1])
            d.parse_tracts(**tracts_kw)
            if not compare(i, "parse_tracts"):
                break
            snap1 = plss_snap(d)
            d.parse_tracts(**tracts_kw)
            diff = first_diff(snap1, plss_snap(d))
            if diff:
                fails.append(Failure("plss_reparse_tracts_changes", f"step {i}: a second identical parse_tracts() changed {diff}", text=text, ops=c["ops"][:i + 1], init=c["init"]))
                break
        elif name == "parse_tracts_cfg":
            tract_accum.update(op[1])
            tracts_kw = {}
            d.parse_tracts(config=configs.to_text(tract_accum))
            if not compare(i, "parse_tracts"):
                break
        elif name == "preprocess":
            ret = d.preprocess(commit=op[1])
            pp_recommitted = pp_recommitted or op[1]
            noncommitted += 0 if op[1] else 1
            after = plss_snap(d, with_id=True)
            if not op[1]:
                diff = first_diff(before, after)
                if diff:
                    fails.append(Failure("plss_preprocess_side_effect", f"step {i}: preprocess(commit=False) changed {diff}", text=text, ops=c["ops"][:i + 1]))
                    break
            fr = PLSSDesc(text, config=configs.to_text(accum), wait_to_parse=True).preprocess()
            if ret != fr:
                fails.append(Failure("plss_preprocess_return", f"step {i}: preprocess() returned {ret!r}, a fresh object with the same settings returns {fr!r}", text=text, ops=c["ops"][:i + 1]))
                break
        elif name == "config":
            accum.update(op[1])
            # every assignment restates the settings still wanted (see ASSUMPTIONS)
            d.config = configs.to_text(accum)
            after = plss_snap(d, with_id=True)
            for k in ("tracts", "w_flags", "e_flags", "w_flag_lines", "e_flag_lines", "pp_desc", "current_layout"):
                if before[k] != after[k]:
                    fails.append(Failure("plss_config_assignment_changes_results", f"step {i}: assigning .config changed {k}", text=text, ops=c["ops"][:i + 1]))
        elif name == "sort":
            sort_keys = sort_keys + [op[1]]
            d.sort_tracts(op[1])
            if sorted(t["id"] for t in before["tracts"]) != sorted(id(t) for t in d.tracts):
                fails.append(Failure("plss_sort_changes_membership", f"step {i}: sort_tracts changed which tracts are held", text=text, ops=c["ops"][:i + 1]))
        elif name == "filter_errors":
            d.filter_errors()
            diff = first_diff(before, plss_snap(d, with_id=True))
            if diff:
                fails.append(Failure("plss_filter_side_effect", f"step {i}: filter_errors(drop=False) changed {diff}", text=text, ops=c["ops"][:i + 1]))
        had_flags = had_flags or bool(d.flags) or any(t.flags for t in d.tracts)
        if fails:
            break
    _last["nt"] = committed >= 2 and noncommitted >= 1 and had_flags
    _last["ops"] = {op[0] for op in c["ops"]}
    if not fails:
        ch = canary.changed()
        if ch:
            fails.append(Failure("plss_history_left_state_behind", f"after this history on {text!r} unrelated parses changed: {ch}", text=text, ops=c["ops"], init=c["init"]))
    return fails


def oracle_tract(c):
    canary.arm()
    text = c["text"]
    accum = dict(c["init"])
    inherited_w = [("well", "<inherited context>")] if c["inherited"] else []

    def make(cfg):
        t = Tract(text, trs="154n97w14", config=configs.to_text(cfg))
        for fl, ln in inherited_w:      # as a parent PLSSDesc would hand down
            t.w_flags.append(fl)
            t.w_flag_lines.append((fl, ln))
        return t

    t = make(accum)
    fails = []
    committed, noncommitted, had_flags = (1 if accum.get("parse_qq") else 0), 0, False
    for i, op in enumerate(c["ops"]):
        name = op[0]
        before = tract_snap(t)
        if name == "parse":
            commit, kw = op[1], dict(op[2])
            if commit:
                t.parse(**kw)
                committed += 1
                f = make(dict(accum, parse_qq=False))
                f.parse(**kw)
                a, b = observable_tract(tract_snap(f)), observable_tract(tract_snap(t))
                diff = first_diff(a, b)
                if diff:
                    kind = diff.split(":")[0].split(".")[-1].split("[")[0]
                    fails.append(Failure(f"tract_parse_differs_from_fresh:{kind}", f"step {i}: parse({kw}) result differs from a fresh Tract with the same settings at {diff}",
                                         text=text, ops=c["ops"][:i + 1], init=c["init"]))
                    break
                if kw:
                    merged = merge_kw_into_settings(accum, kw)
                    g = make(dict(merged, parse_qq=True))
                    if (list(g.lots), list(g.qqs), g.pp_desc) != (list(t.lots), list(t.qqs), t.pp_desc):
                        fails.append(Failure("tract_keywords_differ_from_configured", f"step {i}: parse({kw}) over {configs.to_text(accum)!r} gives {t.lots} {t.qqs}, a fresh Tract configured {configs.to_text(merged)!r} gives {g.lots} {g.qqs}",
                                             text=text, ops=c["ops"][:i + 1], init=c["init"]))
                        break
                snap1 = tract_snap(t)
                t.parse(**kw)
                diff = first_diff(snap1, tract_snap(t))
                if diff:
                    fails.append(Failure("tract_reparse_changes", f"step {i}: a second identical parse({kw}) changed {diff}", text=text, ops=c["ops"][:i + 1], init=c["init"]))
                    break
            else:
                ret = t.parse(commit=False, **kw)
                noncommitted += 1
                diff = first_diff(before, tract_snap(t))
                if diff:
                    fails.append(Failure("tract_nocommit_side_effect", f"step {i}: parse(commit=False, {kw}) changed {diff}", text=text, ops=c["ops"][:i + 1]))
                    break
                f = make(dict(accum, parse_qq=False))
                want = f.parse(commit=False, **kw)
                if list(ret) != list(want):
                    fails.append(Failure("tract_nocommit_return", f"step {i}: parse(commit=False, {kw}) returned {ret}, a fresh Tract returns {want}", text=text, ops=c["ops"][:i + 1]))
                    break
        elif name == "preprocess":
            kw = {} if op[2] is None else {"clean_qq": op[2]}
            t.preprocess(commit=op[1], **kw)
            if not op[1]:
                noncommitted += 1
                diff = first_diff(before, tract_snap(t))
                if diff:
                    fails.append(Failure("tract_preprocess_side_effect", f"step {i}: preprocess(commit=False) changed {diff}", text=text, ops=c["ops"][:i + 1]))
                    break
        elif name == "config":
            accum.update(op[1])
            t.config = configs.to_text(accum)
            after = tract_snap(t)
            for k in ("lots", "qqs", "w_flags", "e_flags", "pp_desc", "lot_acres"):
                if before[k] != after[k]:
                    fails.append(Failure("tract_config_assignment_changes_results", f"step {i}: assigning .config changed {k}", text=text, ops=c["ops"][:i + 1]))
        had_flags = had_flags or bool(t.flags)
        if fails:
            break
    _last["nt"] = committed >= 2 and noncommitted >= 1 and had_flags
    _last["ops"] = {op[0] for op in c["ops"]}
    if not fails:
        ch = canary.changed()
        if ch:
            fails.append(Failure("tract_history_left_state_behind", f"after this history on {text!r} unrelated parses changed: {ch}", text=text, ops=c["ops"], init=c["init"]))
    return fails


def classes(c):
    return [f"op={o}" for o in sorted(_last.get("ops", ()))] + (["nontrivial"] if _last.get("nt") else [])


SUBS = [
    Sub("plssdesc", oracle_plss, strategy=lambda tier: PLSS_CASE, nontrivial=lambda c: bool(_last.get("nt")), classes=classes,
        render=lambda c: c, n={"quick": 500, "thorough": 4000}, shards={"quick": 10, "thorough": 16},
        essential=("op=parse", "op=parse_tracts", "op=parse_tracts_cfg", "op=config", "op=sort", "op=preprocess", "nontrivial")),
    Sub("tract", oracle_tract, strategy=lambda tier: TRACT_CASE, nontrivial=lambda c: bool(_last.get("nt")), classes=classes,
        render=lambda c: c, n={"quick": 800, "thorough": 6000}, shards={"quick": 4, "thorough": 16},
        essential=("op=parse", "op=config", "op=preprocess", "nontrivial")),
]
