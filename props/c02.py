"""C02 - aliquot parsing tiles exactly the described area at the requested depth."""
import itertools

from hypothesis import strategies as st

from vlib.core import Sub, Failure
from vlib import env
from vlib import aliquot as aq

pytrs = env.import_pytrs()
from pytrs import Tract  # noqa: E402

ID = "C02"
RULE = (
    "Every chain over the 8 aliquot components of length 1..4 (quick) / 1..5 (thorough) plus ALL, crossed with all 30 "
    "depth configurations (qq_depth_min 1..3 x qq_depth_max None|min..4 x break_halves, and qq_depth 1..3 x break_halves), "
    "is enumerated exhaustively; chains of length 5..7 and redundant combinations (qq_depth together with min/max) are "
    "drawn by Hypothesis; a third sub-check delivers the depth settings through every route (parse keywords alone or over a contrary configuration, "
    "re-configuration or attribute assignment on a Tract parsed before, a second parse of the same object, PLSSDesc config / keywords / assigned config, "
    "parse_tracts keywords / config) with the chain written in symbols, '/2 /4', the library's own fraction-free form or words. "
    "Oracle = exact rectangle geometry computed from the original chain. Non-trivial: chain of "
    "length >= 2 containing a half, or a non-default depth configuration. Distinct = distinct (chain, configuration)."
)
ASSUMPTIONS = [
    "The exhaustive grid writes chains in the canonical symbol spelling (spelling variation is C07); the routes sub-check uses four spellings.",
    "When a configuration is replaced by another one, the new one names every setting the old one named (a config text only changes the settings it names).",
    "qq_depth_max < qq_depth_min is never generated (documented as unsupported).",
]


def depth_configs():
    cfgs = []
    for mn in (1, 2, 3):
        for mx in [None] + list(range(mn, 5)):
            for bh in (False, True):
                cfgs.append({"min": mn, "max": mx, "depth": None, "bh": bh})
    for d in (1, 2, 3):
        for bh in (False, True):
            cfgs.append({"min": None, "max": None, "depth": d, "bh": bh})
    return cfgs


def config_text(cfg):
    parts = []
    if cfg["min"] is not None:
        parts.append(f"qq_depth_min.{cfg['min']}")
    if cfg["max"] is not None:
        parts.append(f"qq_depth_max.{cfg['max']}")
    if cfg["depth"] is not None:
        parts.append(f"qq_depth.{cfg['depth']}")
    if cfg["bh"]:
        parts.append("break_halves")
    return ",".join(parts)


def enum_cases(tier):
    maxlen = 4 if tier == "quick" else 5
    chains = [["ALL"]]
    for n in range(1, maxlen + 1):
        chains += [list(c) for c in itertools.product(aq.COMPONENTS, repeat=n)]
    cfgs = depth_configs()
    return [{"chain": ch, "cfg": cfg} for ch in chains for cfg in cfgs]


def random_cases(tier):
    cfg = st.fixed_dictionaries({
        "min": st.sampled_from([None, 1, 2, 3]),
        "max": st.sampled_from([None, 1, 2, 3, 4, 5]),
        "depth": st.sampled_from([None, None, 1, 2, 3]),
        "bh": st.booleans(),
    }).filter(lambda c: c["max"] is None or c["max"] >= (c["min"] if c["min"] is not None else 2))
    return st.fixed_dictionaries({"chain": aq.chain_strategy(5, 7), "cfg": cfg})


def effective(cfg):
    mn = cfg["min"] if cfg["min"] is not None else 2
    mx = cfg["max"]
    if cfg["depth"] is not None:
        mn = mx = cfg["depth"]
    return mn, mx


def nontrivial(c):
    ch = c["chain"]
    has_half = any(x in aq.HALVES for x in ch)
    default_cfg = c["cfg"] == {"min": 2, "max": None, "depth": None, "bh": False} or \
        (c["cfg"]["min"] in (None, 2) and c["cfg"]["max"] is None and c["cfg"]["depth"] is None and not c["cfg"]["bh"])
    return (len(ch) >= 2 and has_half) or not default_cfg


def classes(c):
    ch = c["chain"]
    out = [f"len={min(len(ch), 5)}"]
    for a, b in zip(ch, ch[1:]):
        if a in aq.HALVES and b in aq.HALVES:
            same = (a in "NS") == (b in "NS")
            out.append("same_axis_pair" if same else "cross_axis_pair")
        if a in aq.QUARTERS and b in aq.HALVES:
            out.append("quarter_of_half")
    if ch and ch[0] in ("E", "W"):
        out.append("ew_smallest")
    if ch and ch[-1] in ("E", "W"):
        out.append("ew_largest")
    if c["cfg"]["max"] is not None or c["cfg"]["depth"] is not None:
        out.append("has_max")
    if c["cfg"]["bh"]:
        out.append("break_halves")
    return out


def check_pieces(pieces, whole, chain, cfg, text, label):
    mn, mx = effective(cfg)
    fails = []
    real_chain = [] if chain == ["ALL"] else chain
    region = aq.chain_rect(real_chain, mx)
    ctx = dict(text=text, config=config_text(cfg), qqs=pieces, route=label)
    where = f"{text!r} [{config_text(cfg)}]" + (f" via {label}" if label else "")
    if not pieces:
        return [Failure("no_pieces", f"{where} produced no aliquots", **ctx)]
    rects = []
    for p in pieces:
        toks = aq.piece_tokens(p)
        if toks is None:
            return [Failure("bad_piece", f"piece {p!r} of {where} is not an aliquot string", **ctx)]
        if len(toks) < mn or any(tk not in aq.QUARTERS for tk in toks[-mn:]):
            fails.append(Failure("min_depth", f"piece {p!r} of {where} is not divided to depth {mn}", **ctx))
        if mx is not None and len(toks) > mx:
            fails.append(Failure("max_depth", f"piece {p!r} of {where} is deeper than {mx}", **ctx))
        if cfg["bh"] and any(tk in aq.HALVES for tk in toks):
            fails.append(Failure("break_halves", f"piece {p!r} of {where} contains a half under break_halves", **ctx))
        r = aq.chain_rect(toks)
        if not aq.inside(r, region):
            fails.append(Failure("outside", f"piece {p!r} of {where} lies outside the described area", **ctx))
        rects.append(r)
    if len(rects) <= 300:
        for i in range(len(rects)):
            for j in range(i + 1, len(rects)):
                if aq.overlap(rects[i], rects[j]):
                    fails.append(Failure("overlap", f"pieces {pieces[i]!r} and {pieces[j]!r} of {where} overlap", **ctx))
                    break
            else:
                continue
            break
    total = sum(aq.area(r) for r in rects)
    if total != aq.area(region):
        fails.append(Failure("area", f"{where}: pieces cover {total} of the section, described area is {aq.area(region)}", **ctx))
    # aliquots_whole mirrors the chain as written
    want_whole = ["ALL"] if chain == ["ALL"] else [aq.frac_free(chain)]
    if chain != ["ALL"] and whole is not None and list(whole) != want_whole:
        fails.append(Failure("aliquots_whole", f"{where}: aliquots_whole {whole!r} != {want_whole!r}", **ctx))
    # dedupe by signature
    seen, out = set(), []
    for f in fails:
        if f.sig not in seen:
            seen.add(f.sig)
            out.append(f)
    return out


def oracle(c):
    chain, cfg = c["chain"], c["cfg"]
    text = "ALL" if chain == ["ALL"] else aq.canonical_text(chain)
    t = Tract(text, parse_qq=True, config=config_text(cfg))
    return check_pieces(list(t.qqs), list(t.aliquots_whole), chain, cfg, text, "")


# the same settings through every route by which they can reach the aliquot parser -----------------------------------------
# (keyword over a contrary configuration, re-configuration of an object that was parsed before, PLSSDesc hand-down)

ROUTES = ["tract_kw", "tract_kw_over_config", "tract_reconfigured", "tract_attributes", "plss_config", "plss_kw_over_config", "plss_config_assigned",
          "parse_tracts_kw", "parse_tracts_config", "tract_reparsed_same_object",
          # an unrelated setting assigned afterwards leaves the depth settings in force; the list a dry run returns obeys the keywords of that call
          "tract_unrelated_config_afterwards", "parse_tracts_unrelated_config", "tract_dry_run_return", "unparsed_tract_dry_run_return",
          # the description assigned to an existing (already parsed) object; the alternative constructor; the same component
          # after a longer description that begins with it was parsed in the same process
          "tract_desc_reassigned", "from_twprgesec_parse_qq", "from_twprgesec_config_parse_qq", "after_longer_description_in_process"]
SPELL = ["glyph", "slash", "fracfree", "words", "wrapped"]
UNRELATED = ["suppress_lot_divs", "clean_qq", "n,w", "suppress_lot_divs.False", "ocr_scrub"]


def other_values(cfg, k):
    """A configuration that names the same settings as cfg with other values (so that cfg, applied afterwards, overrides all of it)."""
    out = dict(cfg)
    if cfg["depth"] is not None:
        out["depth"] = (cfg["depth"] + k) % 3 + 1
    else:
        out["min"] = (cfg["min"] + k) % 3 + 1
        if cfg["max"] is not None:
            out["max"] = max(out["min"], (cfg["max"] + k) % 4 + 1)
    out["bh"] = not cfg["bh"]
    return out


def explicit_text(cfg):
    """Like config_text, but break_halves is always restated."""
    t = config_text(dict(cfg, bh=False))
    return ",".join(x for x in (t, f"break_halves.{bool(cfg['bh'])}") if x)


def kwargs_of(cfg):
    kw = {"break_halves": bool(cfg["bh"])}
    if cfg["depth"] is not None:
        kw["qq_depth"] = cfg["depth"]
    else:
        kw["qq_depth_min"] = cfg["min"]
        if cfg["max"] is not None:
            kw["qq_depth_max"] = cfg["max"]
    return kw


def spell_chain(chain, how):
    if how == "slash":
        return "".join(c + ("/2" if c in aq.HALVES else "/4") for c in chain)
    if how == "fracfree":
        # the library's own fraction-free form ('N2NENE'): bare quarters are read as such in a run that directly follows a half
        k = 0
        while k < len(chain) and chain[k] in aq.HALVES:
            k += 1
        if k >= 1 and all(x in aq.QUARTERS for x in chain[k:]):
            return aq.frac_free(chain)
        return aq.canonical_text(chain)
    if how == "wrapped":
        # a chain that runs over line breaks (Unix and Windows line ends)
        seps = ["\n", "\r\n", " of the\r\n", " of\n", "\r\n  "]
        out = ""
        for i, comp in enumerate(chain):
            out += comp + ("/2" if comp in aq.HALVES else "/4")
            if i < len(chain) - 1:
                out += seps[(i + len(chain)) % len(seps)]
        return out
    if how == "words":
        names = {"N": "North Half", "S": "South Half", "E": "East Half", "W": "West Half", "NE": "Northeast Quarter", "NW": "Northwest Quarter",
                 "SE": "Southeast Quarter", "SW": "Southwest Quarter"}
        return " of the ".join(names[c] for c in chain)
    return aq.canonical_text(chain)


ROUTE_CASE = st.fixed_dictionaries({
    "chain": aq.chain_strategy(1, 4), "cfg": st.sampled_from(depth_configs()), "route": st.sampled_from(ROUTES), "spell": st.sampled_from(SPELL),
    "k": st.integers(0, 2),
})


def oracle_routes(c):
    from pytrs import PLSSDesc
    chain, cfg, route = c["chain"], c["cfg"], c["route"]
    text = spell_chain(chain, c["spell"])
    prior = other_values(cfg, c["k"])
    if c["k"] == 2 and route in ("tract_kw_over_config", "plss_kw_over_config", "parse_tracts_kw", "tract_reparsed_same_object"):
        # the configuration underneath names the *other* kind of depth setting: an exact depth under min/max keywords and vice versa
        if cfg["depth"] is None:
            prior = {"min": None, "max": None, "depth": cfg["min"] % 3 + 1, "bh": not cfg["bh"]}
        else:
            prior = {"min": cfg["depth"] % 3 + 1, "max": 4, "depth": None, "bh": not cfg["bh"]}
    kw = kwargs_of(cfg)
    full = f"T154N-R97W Sec 14: {text}"
    whole = None
    if route == "tract_kw":
        t = Tract(text)
        t.parse(**kw)
    elif route == "tract_kw_over_config":
        t = Tract(text, config=explicit_text(prior))
        t.parse(**kw)
    elif route == "tract_reconfigured":
        t = Tract(text, parse_qq=True, config=explicit_text(prior))
        t.config = explicit_text(cfg)
        t.parse()
    elif route == "tract_attributes":
        t = Tract(text, parse_qq=True, config=explicit_text(prior))
        t.qq_depth_min, t.qq_depth_max, t.qq_depth, t.break_halves = (cfg["min"] if cfg["min"] is not None else 2), cfg["max"], cfg["depth"], bool(cfg["bh"])
        t.parse()
    elif route == "tract_reparsed_same_object":
        t = Tract(text, parse_qq=True, config=explicit_text(prior))
        t.parse(**kwargs_of(prior))
        t.parse(**kw)
    elif route == "tract_unrelated_config_afterwards":
        t = Tract(text, parse_qq=True, config=explicit_text(cfg))
        t.config = UNRELATED[c["k"] % len(UNRELATED)]
        t.parse()
    elif route == "parse_tracts_unrelated_config":
        d = PLSSDesc(full, config="parse_qq," + explicit_text(cfg))
        d.parse_tracts(config=UNRELATED[c["k"] % len(UNRELATED)])
        t = d.tracts[0]
    elif route == "tract_desc_reassigned":
        before = "S/2SW/4" if chain[:1] != ["S"] else "NE/4NE/4"
        t = Tract(before, parse_qq=bool(c["k"] % 2), config=explicit_text(cfg))
        t.desc = text
        t.parse()
    elif route == "from_twprgesec_parse_qq":
        t = Tract.from_twprgesec(text, 154, 97, 14, config=explicit_text(cfg), parse_qq=True)
    elif route == "from_twprgesec_config_parse_qq":
        t = Tract.from_twprgesec(text, "154n", "97w", 14, config="parse_qq," + explicit_text(cfg))
    elif route == "after_longer_description_in_process":
        other = "SE/4SE/4" if chain[-1:] != ["SE"] else "NW/4NW/4"
        first = Tract(f"{text}, {other}" if c["k"] != 1 else f"{text}, {other}, Lot 1", parse_qq=True, config=explicit_text(cfg))
        if not first.qqs:
            return [Failure("route_no_pieces", f"{first.desc!r} under {config_text(cfg)!r}: no aliquots", text=first.desc)]
        t = Tract(text, parse_qq=True, config=explicit_text(cfg))
    elif route in ("tract_dry_run_return", "unparsed_tract_dry_run_return"):
        t = Tract(text, parse_qq=(route == "tract_dry_run_return"), config=explicit_text(prior))
        returned = t.parse(commit=False, **kw)
        return check_pieces(list(returned), None, chain, cfg, text, route)
    elif route == "plss_config":
        d = PLSSDesc(full, config="parse_qq," + explicit_text(cfg))
        t = d.tracts[0]
    elif route == "plss_kw_over_config":
        d = PLSSDesc(full, config="parse_qq," + explicit_text(prior), wait_to_parse=True)
        d.parse(**kw)
        t = d.tracts[0]
    elif route == "plss_config_assigned":
        d = PLSSDesc(full, config="parse_qq," + explicit_text(prior))
        d.config = "parse_qq," + explicit_text(cfg)
        d.parse()
        t = d.tracts[0]
    elif route == "parse_tracts_kw":
        d = PLSSDesc(full, config="parse_qq," + explicit_text(prior))
        d.parse_tracts(**kw)
        t = d.tracts[0]
    else:
        d = PLSSDesc(full, config="parse_qq," + explicit_text(prior))
        d.parse_tracts(config=explicit_text(cfg))
        t = d.tracts[0]
    return check_pieces(list(t.qqs), list(t.aliquots_whole), chain, cfg, text, route)


def render(c):
    return {"text": "ALL" if c["chain"] == ["ALL"] else aq.canonical_text(c["chain"]), "config": config_text(c["cfg"])}


SUBS = [
    Sub("grid", oracle, enumerate=enum_cases, nontrivial=nontrivial, classes=classes, render=render, exhaustive=True,
        shards={"quick": 12, "thorough": 16},
        essential=("same_axis_pair", "cross_axis_pair", "quarter_of_half", "ew_smallest", "has_max", "break_halves")),
    Sub("long", oracle, strategy=random_cases, nontrivial=nontrivial, classes=classes, render=render,
        n={"quick": 500, "thorough": 4000}, shards={"quick": 4, "thorough": 16}),
    Sub("routes", oracle_routes, strategy=lambda tier: ROUTE_CASE, nontrivial=nontrivial,
        classes=lambda c: classes(c) + [f"route={c['route']}", f"spell={c['spell']}"] + (["other_kind_of_depth_underneath"] if c["k"] == 2 else []),
        render=lambda c: {"text": spell_chain(c["chain"], c["spell"]), "config": config_text(c["cfg"]), "route": c["route"], "before": config_text(other_values(c["cfg"], c["k"]))},
        n={"quick": 1500, "thorough": 20000}, shards={"quick": 8, "thorough": 16},
        essential=tuple(f"route={r}" for r in ROUTES) + tuple(f"spell={x}" for x in SPELL)),
]
