"""C02 - aliquot parsing tiles exactly the described area at the requested depth."""
import itertools

from hypothesis import strategies as st

from vlib.core import Sub, Failure
from vlib import env
from vlib import aliquot as aq

pytrs = env.import_pytrs()
from pytrs import Tract  # noqa: E402

ID = "C02"
RULE = (
    "Every chain over the 8 aliquot components of length 1..4 (quick) / 1..5 (thorough) plus ALL, crossed with all 30 "
    "depth configurations (qq_depth_min 1..3 x qq_depth_max None|min..4 x break_halves, and qq_depth 1..3 x break_halves), "
    "is enumerated exhaustively; chains of length 5..7 and redundant combinations (qq_depth together with min/max) are "
    "drawn by Hypothesis. Oracle = exact rectangle geometry computed from the original chain. Non-trivial: chain of "
    "length >= 2 containing a half, or a non-default depth configuration. Distinct = distinct (chain, configuration)."
)
ASSUMPTIONS = [
    "Chains are written in the canonical symbol spelling (spelling variation is C07).",
    "qq_depth_max < qq_depth_min is never generated (documented as unsupported).",
]


def depth_configs():
    cfgs = []
    for mn in (1, 2, 3):
        for mx in [None] + list(range(mn, 5)):
            for bh in (False, True):
                cfgs.append({"min": mn, "max": mx, "depth": None, "bh": bh})
    for d in (1, 2, 3):
        for bh in (False, True):
            cfgs.append({"min": None, "max": None, "depth": d, "bh": bh})
    return cfgs


def config_text(cfg):
    parts = []
    if cfg["min"] is not None:
        parts.append(f"qq_depth_min.{cfg['min']}")
    if cfg["max"] is not None:
        parts.append(f"qq_depth_max.{cfg['max']}")
    if cfg["depth"] is not None:
        parts.append(f"qq_depth.{cfg['depth']}")
    if cfg["bh"]:
        parts.append("break_halves")
    return ",".join(parts)


def enum_cases(tier):
    maxlen = 4 if tier == "quick" else 5
    chains = [["ALL"]]
    for n in range(1, maxlen + 1):
        chains += [list(c) for c in itertools.product(aq.COMPONENTS, repeat=n)]
    cfgs = depth_configs()
    return [{"chain": ch, "cfg": cfg} for ch in chains for cfg in cfgs]


def random_cases(tier):
    cfg = st.fixed_dictionaries({
        "min": st.sampled_from([None, 1, 2, 3]),
        "max": st.sampled_from([None, 1, 2, 3, 4, 5]),
        "depth": st.sampled_from([None, None, 1, 2, 3]),
        "bh": st.booleans(),
    }).filter(lambda c: c["max"] is None or c["max"] >= (c["min"] if c["min"] is not None else 2))
    return st.fixed_dictionaries({"chain": aq.chain_strategy(5, 7), "cfg": cfg})


def effective(cfg):
    mn = cfg["min"] if cfg["min"] is not None else 2
    mx = cfg["max"]
    if cfg["depth"] is not None:
        mn = mx = cfg["depth"]
    return mn, mx


def nontrivial(c):
    ch = c["chain"]
    has_half = any(x in aq.HALVES for x in ch)
    default_cfg = c["cfg"] == {"min": 2, "max": None, "depth": None, "bh": False} or \
        (c["cfg"]["min"] in (None, 2) and c["cfg"]["max"] is None and c["cfg"]["depth"] is None and not c["cfg"]["bh"])
    return (len(ch) >= 2 and has_half) or not default_cfg


def classes(c):
    ch = c["chain"]
    out = [f"len={min(len(ch), 5)}"]
    for a, b in zip(ch, ch[1:]):
        if a in aq.HALVES and b in aq.HALVES:
            same = (a in "NS") == (b in "NS")
            out.append("same_axis_pair" if same else "cross_axis_pair")
        if a in aq.QUARTERS and b in aq.HALVES:
            out.append("quarter_of_half")
    if ch and ch[0] in ("E", "W"):
        out.append("ew_smallest")
    if ch and ch[-1] in ("E", "W"):
        out.append("ew_largest")
    if c["cfg"]["max"] is not None or c["cfg"]["depth"] is not None:
        out.append("has_max")
    if c["cfg"]["bh"]:
        out.append("break_halves")
    return out


def oracle(c):
    chain, cfg = c["chain"], c["cfg"]
    text = "ALL" if chain == ["ALL"] else aq.canonical_text(chain)
    mn, mx = effective(cfg)
    t = Tract(text, parse_qq=True, config=config_text(cfg))
    pieces = list(t.qqs)
    fails = []
    real_chain = [] if chain == ["ALL"] else chain
    region = aq.chain_rect(real_chain, mx)
    ctx = dict(text=text, config=config_text(cfg), qqs=pieces)
    if not pieces:
        return [Failure("no_pieces", f"{text!r} [{config_text(cfg)}] produced no aliquots", **ctx)]
    rects = []
    for p in pieces:
        toks = aq.piece_tokens(p)
        if toks is None:
            return [Failure("bad_piece", f"piece {p!r} of {text!r} is not an aliquot string", **ctx)]
        if len(toks) < mn or any(tk not in aq.QUARTERS for tk in toks[-mn:]):
            fails.append(Failure("min_depth", f"piece {p!r} of {text!r} [{config_text(cfg)}] is not divided to depth {mn}", **ctx))
        if mx is not None and len(toks) > mx:
            fails.append(Failure("max_depth", f"piece {p!r} of {text!r} [{config_text(cfg)}] is deeper than {mx}", **ctx))
        if cfg["bh"] and any(tk in aq.HALVES for tk in toks):
            fails.append(Failure("break_halves", f"piece {p!r} of {text!r} contains a half under break_halves", **ctx))
        r = aq.chain_rect(toks)
        if not aq.inside(r, region):
            fails.append(Failure("outside", f"piece {p!r} of {text!r} [{config_text(cfg)}] lies outside the described area", **ctx))
        rects.append(r)
    if len(rects) <= 300:
        for i in range(len(rects)):
            for j in range(i + 1, len(rects)):
                if aq.overlap(rects[i], rects[j]):
                    fails.append(Failure("overlap", f"pieces {pieces[i]!r} and {pieces[j]!r} of {text!r} overlap", **ctx))
                    break
            else:
                continue
            break
    total = sum(aq.area(r) for r in rects)
    if total != aq.area(region):
        fails.append(Failure("area", f"{text!r} [{config_text(cfg)}]: pieces cover {total} of the section, described area is {aq.area(region)}", **ctx))
    # aliquots_whole mirrors the chain as written
    want_whole = ["ALL"] if chain == ["ALL"] else [aq.frac_free(chain)]
    if chain != ["ALL"] and list(t.aliquots_whole) != want_whole:
        fails.append(Failure("aliquots_whole", f"aliquots_whole {t.aliquots_whole!r} != {want_whole!r}", **ctx))
    # dedupe by signature
    seen, out = set(), []
    for f in fails:
        if f.sig not in seen:
            seen.add(f.sig)
            out.append(f)
    return out


def render(c):
    return {"text": "ALL" if c["chain"] == ["ALL"] else aq.canonical_text(c["chain"]), "config": config_text(c["cfg"])}


SUBS = [
    Sub("grid", oracle, enumerate=enum_cases, nontrivial=nontrivial, classes=classes, render=render, exhaustive=True,
        shards={"quick": 12, "thorough": 16},
        essential=("same_axis_pair", "cross_axis_pair", "quarter_of_half", "ew_smallest", "has_max", "break_halves")),
    Sub("long", oracle, strategy=random_cases, nontrivial=nontrivial, classes=classes, render=render,
        n={"quick": 500, "thorough": 4000}, shards={"quick": 4, "thorough": 16}),
]
