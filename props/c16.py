"""C16 - parsing time stays bounded on any input of ordinary size."""
import atexit
import re

from hypothesis import strategies as st

from vlib.core import Sub, Failure, HarnessError, note_excluded
from vlib import env, timing, soup

env.import_pytrs()

ID = "C16"
MAXLEN = 300
RULE = (
    f"Strings of at most {MAXLEN} characters: (pumping) prefix + unit^n + suffix for 26 description-level and 15 tract-level anchor contexts (text start, after a "
    "Twp/Rge, after 'Sec N', after 'Sec N:', inside a block, after 'Lot N', after a half, after a spelled fraction word, ...) x "
    "every atom of the patterns' vocabulary (each whitespace character, each dead-space punctuation character, connectives, "
    "keywords, direction letters, digits, fraction glyphs, P.M. fragments), alone and followed by a space - enumerated - and "
    "every concatenation of two atoms - sampled by Hypothesis - x 7 suffixes, at n = as many as fit and half of that; "
    "(repetition) k lines repeating the same or different Twp/Rge, k sections, k lots, k aliquots, k of the widest lot (1..999) and section (1..99) ranges; (soup) token soup and "
    "damaged descriptions; (long_session) an ordinary description parsed after 6 000 (thorough: 20 000) other parses in the same process under each mode. Each text is parsed (PLSSDesc(text, parse_qq=True); Tract(text, parse_qq=True) for the tract-level anchors) under the default configuration and - "
    "for the dead-space / connective atoms exhaustively, for the sampled families at random - under each optional parse mode (segment, sec_within, the colon modes, ocr_scrub, "
    "clean_qq, forced layouts; for tracts clean_qq, suppress_lot_divs, break_halves with a depth cap) in an isolated worker process and its CPU time "
    f"is compared with {timing.THRESHOLD_CPU_S} s (an ordinary parse of that size costs < 20 ms). Non-trivial: length >= 100. "
    "Distinct = distinct text."
)
ASSUMPTIONS = [
    "Numbers stay within the documented ranges (sections of at most two digits, lots 1..999): 'Sec 1 - 998' creates a thousand tracts per range by design and is not what the statement is about; break_halves is only combined with a depth cap (without one its output doubles with every half by design).",
    "CPU seconds of the isolated worker decide; a wall-clock timeout with little CPU used is counted as inconclusive, never as a violation.",
]

PREFIXES = {
    "start": "", "after_twprge": "T154N-R97W", "after_sec": "T154N-R97W Sec 14", "after_sec_colon": "T154N-R97W Sec 14:",
    "in_block": "T154N-R97W Sec 14: NE/4", "after_lot": "T154N-R97W Sec 14: Lot 1", "after_half": "T154N-R97W Sec 14: N/2",
    "after_fraction_word": "T154N-R97W Sec 14: North Half", "after_twp_only": "T154N", "in_twprge_words": "Township 154 North, Range",
    "after_of": "T154N-R97W NE/4 of", "sec_first": "Sec 14", "after_lot_div": "T154N-R97W Sec 14: N/2 of Lot 1",
    "after_sections": "T154N-R97W Sections 1 - 3", "after_glyph": "T154N-R97W Sec 14: N½",
    "after_lot_paren": "T154N-R97W Sec 14: Lot 1 (", "after_lot_bracket": "T154N-R97W Sec 14: Lots 1 - 3 [", "twp_no_dir": "Township 154",
    "t_no_dir": "T154", "twp_abbr_no_dir": "Twp. 154", "twprge_no_ew": "T154N-R97", "after_range_word": "T154N-R", "sec_word": "T154N-R97W Sec",
    "after_sec_of": "NE/4 of Section 14 of", "after_through": "T154N-R97W Sec 14: Lots 1 -", "after_acreage": "T154N-R97W Sec 14: Lot 1(40.0)",
    # a second section reference followed by a separator / connective (what comes next decides whether a Twp/Rge belongs to it)
    "after_sec2_comma": "T154N-R97W Sec 14: NE/4, Sec 15,", "after_sec2_of": "T154N-R97W Sec 14: NE/4, Sec 15 of", "after_sec2_in": "T154N-R97W Sec 14: NE/4; Sec 15 in",
    # the wording that raises warnings (each kind has its own pattern, run on every block)
    "after_less": "T154N-R97W Sec 14: NE/4, less", "after_less_and": "T154N-R97W Sec 14: NE/4, less and", "after_except": "T154N-R97W Sec 14: NE/4 except",
    "after_insofar": "T154N-R97W Sec 14: NE/4, insofar", "after_including": "T154N-R97W Sec 14: NE/4, including", "after_limited": "T154N-R97W Sec 14: NE/4, limited",
    "after_surface": "T154N-R97W Sec 14: NE/4, from the surface", "after_depths": "T154N-R97W Sec 14: NE/4, depths", "after_well": "T154N-R97W Sec 14: NE/4, the wellbore",
}
ATOMS = [" ", "\t", "\n", "\r", ".", ",", ";", ":", "-", "–", "—", "/", "&", "|", "_", "~", "(", ")", "[", "]", "and", "to", "thru", "through",
         "of", "the", "all", "in", "Sec", "Section", "§", "Lot", "Lots", "L", "T", "R", "N", "S", "E", "W", "NE", "N/2", "NE/4", "½", "¼",
         "1", "2", "14", "154", "P", "M", "P.M.", "Principal", "Meridian", "o", "f", "t", "h", "e", "North", "Half", "Quarter", "One", "x",
         "T154N-R97W", "Sec 14", "Sec 14:", "Lot 1", "(40.0)", "1/2", "1/4", "s", "th", "0", "said", "within",
         # mixed whitespace (survives a single pass of whitespace reduction as a run), warning vocabulary
         " \t", "\t ", " \n", "\n ", "less", "except", "save", "as", "so", "far", "including", "limited", "base", "top", "well", "bore", "down"]
SUFFIXES = ["", "x", ": NE/4", " 5th P.M.", " Sec 15: W/2", "\nT155N-R97W Sec 1: ALL", " 3", " x\nT155N-R97W Sec 1: ALL"]


def pump(prefix, unit, suffix, frac):
    room = MAXLEN - len(prefix) - len(suffix)
    n = max(1, room // max(1, len(unit)))
    n = max(1, n // frac)
    return prefix + unit * n + suffix


def enum_pump(tier):
    cases = []
    for pname in PREFIXES:
        for a in ATOMS:
            for unit in ([a, a + " "] if a.strip() else [a]):
                for si, suf in enumerate(SUFFIXES):
                    if tier == "quick" and si not in (0, 2, 4, 5, 7):
                        continue
                    for frac in ((1, 2, 5) if tier == "thorough" else (1, 3)):
                        cases.append({"prefix": pname, "unit": unit, "suffix": suf, "frac": frac})
    return cases


TRACT_PREFIXES = {"t_start": "", "t_quarter": "NE/4", "t_half": "N/2", "t_glyph": "N½SW¼", "t_lot": "Lot 1", "t_lot_div": "N/2 of Lot 1",
                  "t_word": "North Half", "t_lots": "Lots 1 - 3", "t_acres": "Lot 1(40.0)", "t_prose": "That part of the NE/4",
                  "t_lot_paren": "Lot 1 (", "t_lot_bracket": "Lots 1 - 3 [", "t_bare_half": "N", "t_dir_word": "North", "t_half_of": "N/2 of"}
TRACT_SUFFIXES = ["", "x", " NE/4", " Lot 2", ", S/2"]
PREFIXES.update(TRACT_PREFIXES)


def enum_tract_pump(tier):
    cases = []
    for pname in TRACT_PREFIXES:
        for a in ATOMS:
            for unit in ([a, a + " "] if a.strip() else [a]):
                for si, suf in enumerate(TRACT_SUFFIXES):
                    if tier == "quick" and si not in (0, 2):
                        continue
                    cases.append({"prefix": pname, "unit": unit, "suffix": suf, "frac": 1, "kind": "tract"})
    return cases


# the same dead-space / connective atoms under each optional parse mode (those modes run patterns of their own) -------------
MODE_CONFIGS = ["segment", "sec_within", "sec_colon_cautious", "sec_colon_required", "ocr_scrub", "clean_qq", "segment,sec_within", "desc_STR", "S_desc_TR"]
MODE_ATOMS = [" ", "\t", "\n", " \t", ".", ",", ";", ":", "-", "–", "/", "&", "_", "(", "[", "and", "to", "thru", "of", "the", "Sec", "Lot", "N", "NE", "1", "14", "T154N-R97W", "x", "o", "l", "S", "I"]
MODE_SUFFIXES = ["", ": NE/4", "\nT155N-R97W Sec 1: ALL", " x"]
TRACT_MODE_CONFIGS = ["clean_qq", "suppress_lot_divs", "break_halves,qq_depth_max.3", "qq_depth.1"]


def enum_mode_pump(tier):
    cases = []
    for pname in PREFIXES:
        tract = pname.startswith("t_")
        for a in MODE_ATOMS:
            for unit in ([a, a + " "] if a.strip() else [a]):
                for suf in (MODE_SUFFIXES if tier == "thorough" else MODE_SUFFIXES[:3]):
                    if tract and suf.startswith("\nT155"):
                        continue
                    for cfg in (TRACT_MODE_CONFIGS if tract else MODE_CONFIGS):
                        case = {"prefix": pname, "unit": unit, "suffix": suf, "frac": 1, "config": cfg}
                        if tract:
                            case["kind"] = "tract"
                        cases.append(case)
    return cases


PAIR_CASE = st.fixed_dictionaries({
    "prefix": st.sampled_from(sorted(PREFIXES)), "a": st.sampled_from(ATOMS), "b": st.sampled_from(ATOMS), "gap": st.sampled_from(["", " ", ""]),
    # an optional third atom, so that units such as 'Sec. 1,' or '1 - 154' occur
    "c": st.sampled_from([""] * 3 + ATOMS), "gap2": st.sampled_from(["", " "]),
    "trail": st.sampled_from(["", " "]), "suffix": st.sampled_from(SUFFIXES), "frac": st.sampled_from([1, 1, 2, 4]),
    "config": st.sampled_from([""] * 6 + MODE_CONFIGS),
}).map(lambda c: dict(c, kind="tract") if c["prefix"].startswith("t_") else c)


def text_of(c):
    if "shape" in c:
        return c["shape"]
    if "unit" in c:
        return pump(PREFIXES[c["prefix"]], c["unit"], c["suffix"], c["frac"])
    if "a" in c:
        return pump(PREFIXES[c["prefix"]], pair_unit(c), c["suffix"], c["frac"])
    if "rep" in c:
        return rep_text(c)
    return c["text"]["text"][:MAXLEN]


def pair_unit(c):
    u = c["a"] + c["gap"] + c["b"]
    if c.get("c"):
        u += c.get("gap2", "") + c["c"]
    return u + c["trail"]


# structural repetition ----------------------------------------------------------
REP_KINDS = ["same_twprge_lines", "different_twprge_lines", "twprge_only", "sections", "section_list", "lots", "lot_list", "aliquots",
             "aliquot_chain", "aliquot_words", "desc_str_tracts", "twprge_spelled", "section_keyword_list", "lot_keyword_list", "section_ranges",
             "wide_lot_ranges", "wide_section_ranges", "divided_wide_lot_ranges"]
REP_TAILS = ["", "", "\nT155N-R97W Sec 1: ALL", ", T155N-R97W", "\nT155N-R97W"]
REP_CASE = st.fixed_dictionaries({"config": st.sampled_from([""] * 6 + MODE_CONFIGS), "rep": st.sampled_from(REP_KINDS), "sep": st.sampled_from(["\n", ", ", " ", "; ", ",\n", "\n\n", " and ", " & "]),
                                  "k": st.integers(2, 60), "var": st.integers(0, 35), "tail": st.sampled_from(REP_TAILS)})


def rep_text(c):
    k, sep, kind = c["k"], c["sep"], c["rep"]
    items = []
    for i in range(k):
        if kind == "same_twprge_lines":
            items.append(f"T154N-R97W Sec {i % 36 + 1}: NE/4")
        elif kind == "different_twprge_lines":
            items.append(f"T{150 + i}N-R{90 + i % 9}W Sec {i % 36 + 1}: NE/4")
        elif kind == "twprge_only":
            items.append(["T154N-R97W", "154N-97W", "T154-R97", "Township 154 North, Range 97 West"][c["var"] % 4])
        elif kind == "sections":
            items.append(f"Sec {i % 36 + 1}: NE/4")
        elif kind == "section_list":
            items.append(str(i % 36 + 1))
        elif kind == "lots":
            items.append(f"Lot {i + 1}")
        elif kind == "lot_list":
            items.append(str(i + 1) + ["", "(40.0)", " - ", ""][c["var"] % 4])
        elif kind == "aliquots":
            items.append(["NE/4", "N/2", "NE¼", "N½SW¼"][c["var"] % 4])
        elif kind == "aliquot_chain":
            items.append(["N/2", "NE/4", "N½", "E2"][c["var"] % 4])
        elif kind == "aliquot_words":
            items.append(["North Half", "Northeast Quarter", "North One Half of the", "NE Quarter of"][c["var"] % 4])
        elif kind == "desc_str_tracts":
            items.append(f"NE/4 of Sec {i % 36 + 1}, T154N-R97W")
        elif kind == "twprge_spelled":
            items.append(f"Township {100 + i} North, Range {i % 99 + 1} West, Section {i % 36 + 1}: ALL")
        elif kind == "section_keyword_list":
            items.append(["Sec.", "Section", "Secs.", "§", "Sec", "Sects."][c["var"] % 6] + f" {i % 36 + 1}")
        elif kind == "lot_keyword_list":
            items.append(["Lot", "L.", "Lts.", "Lt.", "Lots", "L"][c["var"] % 6] + f" {i + 1}" + ["", "(40.0)", " [39.9]"][c["var"] % 3])
        elif kind == "section_ranges":
            items.append(f"{i % 30 + 1}{[' - ', ' thru. ', ' to ', '–', ' through ', ' thru '][c['var'] % 6]}{i % 30 + 3}")
        elif kind == "wide_lot_ranges":
            # few characters, many lots: the widest ranges the documented lot numbers (1..999) allow
            items.append(["L1-999", "Lots 1-999", "L999-1", "Lt 1 - 998", "Lot 2 thru 999", "L1-500"][c["var"] % 6])
        elif kind == "wide_section_ranges":
            items.append(["Sec 1-99: ALL", "Sec 99 - 1: NE/4", "Sections 1 thru 99: Lot 1", "Sec 1-36: ALL", "§ 1 - 99: N/2", "Sec 2-98: Lots 1 - 99"][c["var"] % 6])
        elif kind == "divided_wide_lot_ranges":
            # an aliquot in front of a long lot list divides every lot up to the next 'Lot' word
            items.append(["1-999", "2 - 999", "999-1", "1 thru 998", "Lots 1-999", "1-500"][c["var"] % 6])
    tail = c.get("tail", "")
    if kind == "divided_wide_lot_ranges":
        head = ["N/2 of L", "NE/4 of Lots ", "W½ of Lot ", "N/2NE/4 of L", "S/2 of the E/2 of Lots ", "N2 L"][(c["var"] // 6 + c["k"]) % 6]
        text = "T154N-R97W Sec 14: " + head + (sep if sep.strip() else ",").join(items)
        return text[:MAXLEN - len(tail)] + tail
    if kind == "wide_lot_ranges":
        text = "T154N-R97W Sec 14: " + (sep if sep.strip() else ",").join(items)
        return text[:MAXLEN - len(tail)] + tail
    if kind == "wide_section_ranges":
        text = "T154N-R97W " + (sep if sep.strip() else ", ").join(items)
        return text[:MAXLEN - len(tail)] + tail
    if kind in ("section_list", "section_ranges"):
        text = "T154N-R97W Sections " + (sep if sep.strip() else ", ").join(items)
        return text[:MAXLEN - len(tail) - 6] + ": NE/4" + tail
    elif kind == "section_keyword_list":
        text = "T154N-R97W " + (sep if sep.strip() else ", ").join(items)
        return text[:MAXLEN - len(tail) - 6] + ": NE/4" + tail
    elif kind == "lot_keyword_list":
        text = "T154N-R97W Sec 14: " + (sep if sep.strip() else ", ").join(items)
        return text[:MAXLEN - len(tail)] + tail
    elif kind in ("lot_list",):
        text = "T154N-R97W Sec 14: Lots " + (sep if sep.strip() else ", ").join(items)
    elif kind in ("sections", "lots", "aliquots", "aliquot_words"):
        text = "T154N-R97W " + ("Sec 14: " if kind != "sections" else "") + sep.join(items)
    elif kind == "aliquot_chain":
        text = "T154N-R97W Sec 14: " + ("" if c["sep"] in ("\n", ", ") else " ").join(items)
    else:
        text = sep.join(items)
    return text[:MAXLEN - len(tail)] + tail


SOUP_CASE = st.fixed_dictionaries({"text": soup.ANY_TEXT, "config": st.sampled_from([""] * 4 + MODE_CONFIGS)})

_last = {}
_replaying = [False]
atexit.register(timing.shutdown)


_slow_seen = [0]
MAX_SLOW_PER_SHARD = 3        # each slow text costs seconds; three per shard establish the violation


def oracle(c):
    text = text_of(c)
    if _slow_seen[0] >= MAX_SLOW_PER_SHARD and not _replaying[0]:
        note_excluded("not_measured_after_3_slow_findings_in_this_shard")
        _last["status"] = "skipped"
        _last["len"] = len(text)
        return []
    status, cpu = timing.measure(text, kind=c.get("kind", "plss"), config=c.get("config", ""))
    _last["status"] = status
    _last["len"] = len(text)
    if status == "slow":
        _slow_seen[0] += 1
        fam = family(c, text)
        if c.get("config"):
            fam += f"@{c['config']}"
        return [Failure(f"slow:{fam}", f"[config {c.get('config', '')!r}] parsing {len(text)} characters took more than {timing.THRESHOLD_CPU_S} s of CPU ({cpu:.1f} s when stopped): {text[:120]!r}...",
                        text=text, cpu=cpu)]
    if status == "inconclusive":
        note_excluded("inconclusive_wall_timeout_without_cpu")
    if status == "error":
        raise HarnessError(f"timing worker failed: {cpu}")
    return []


def family(c, text):
    """Root-cause key: which anchor and which canonical pumped unit."""
    if "unit" in c:
        return f"pump:{c['prefix']}:{canon_unit(c['unit'])}"
    if "a" in c:
        return f"pump:{c['prefix']}:{canon_unit(pair_unit(c))}"
    if "rep" in c:
        return f"rep:{c['rep']}"
    if "shape" in c:
        return f"shape:{c['token']}"
    return "soup"


def canon_unit(u):
    u = re.sub(r"[ \t\r\n]+", "_", u)
    return u or "_"


def classes(c):
    out = []
    if "prefix" in c:
        out.append(f"anchor={c['prefix']}")
    if "rep" in c:
        out.append(f"rep={c['rep']}")
    out.append(f"status={_last.get('status')}")
    out.append(f"config={c.get('config', '')}")
    return out


def render(c):
    return {"text": text_of(c), "entry": "Tract(text, parse_qq=True)" if c.get("kind") == "tract" else "PLSSDesc(text, parse_qq=True)", "config": c.get("config", "")}


# short shapes: every token of the PLSS vocabulary, and the rare-but-legal forms below, alone and in the places where they are read ---
# (no pumping: a loop that never ends shows on a description of a dozen characters)

RARE_SHAPES = [
    # ranges whose two ends are the same number; zero; numbers at the top of their range
    "Sec 5 - 5", "Sections 12 thru 12", "Section 8 to 8", "Secs 1, 3 - 3, 5", "Lots 3 - 3", "Lot 2 to 2", "Lots 1, 4 - 4", "Sec 36 - 36", "Sec 99 - 99",
    "Lot 0", "L00", "Lots 0 - 3", "Lots 1, 2, 0, 4", "Lots 3 - 0", "Sec 0", "Sec 00 - 00", "Sec 0 - 0", "Lot 999", "Lots 998 - 999", "Sec 99", "Sec 100", "Lot 1000",
    # an aliquot that is only referred to (a boundary call), a lot likewise
    "north of the south line of the NW/4NE/4", "to the east line of the NW/4NW/4", "the northeast corner of the SE/4", "along the boundary of said N/2",
    "east of the west line of Lot 3", "the corner of Lots 1 - 3", "line of the NE/4", "corner of NE/4NE/4", "boundary of the N½NE¼",
    # acreage brackets
    "Lot 1()", "Lots 1(38.29), 2[]", "L1() thru L4", "Lot 3( )", "Lot 1((40))", "Lot 1(40", "Lot 1 40)", "Lots 1(.5) - 3(0)",
    # keyword directly followed by keyword / end
    "Sec", "Sec Sec", "Lot Lot 1", "Lots", "Lots thru", "Sec 1 thru", "thru 3", "Sec -", "Lots -", "NE/4 of", "of the of the",
    "ALL ALL", "all of all of", "N/2N/2N/2N/2N/2N/2", "NENENENENENENENE", "N2N2N2N2N2N2",
]


def enum_shapes(tier):
    toks = list(dict.fromkeys([t for t in soup.TOKENS if t.strip()] + RARE_SHAPES))
    cases = []
    for tok in toks:
        frames = [("tract", tok), ("tract", f"{tok}, NE/4"), ("plss", tok), ("plss", f"T154N-R97W Sec 14: {tok}"), ("plss", f"T154N-R97W {tok}: NE/4"),
                  ("plss", f"T154N-R97W Sec 14: NE/4, {tok}"), ("plss", f"{tok}, T154N-R97W"), ("plss", f"NE/4 of {tok}, T154N-R97W")]
        for kind, text in frames:
            cases.append({"shape": text, "token": tok, "kind": kind, "config": ""})
        if tier == "thorough" or tok in RARE_SHAPES:
            for cfg in MODE_CONFIGS:
                cases.append({"shape": f"T154N-R97W Sec 14: {tok}", "token": tok, "kind": "plss", "config": cfg})
    return cases


# long sessions: the cost of a parse does not creep up with the number of parses the process has done before ------------------

SESSION_TEXT = ("T154N-R97W Sec 14: NE/4, Lots 1 - 3, less and except the wellbore\nSec 15: N/2SW/4\nTownship 155 North, Range 97 West, Section 1: ALL; "
                "Sec 2: That part of the W/2 lying north of the river, Sec 3 - 5: Lots 2 (38.5), 3 and the S/2N/2")
SESSION_WARM = {"plss": "TI5{k}N-R9{k}W Sec {k}: NE/4, Lot {k}", "tract": "N/2NE/4, Lots 1 - 3, NE"}


def enum_sessions(tier):
    n = 6000 if tier == "quick" else 20000
    cases = [{"session": cfg, "n": n, "kind": "plss"} for cfg in ["ocr_scrub", "segment,sec_within", "sec_colon_cautious", "clean_qq", ""]]
    cases += [{"session": cfg, "n": n, "kind": "tract"} for cfg in ["clean_qq", "break_halves,qq_depth_max.3"]]
    return cases


def oracle_session(c):
    warm = {"n": c["n"], "text": SESSION_WARM[c["kind"]], "config": c["session"], "kind": c["kind"]}
    status, cpu = timing.measure(SESSION_TEXT, kind="plss", config="", warmup=warm)
    _last["status"] = status
    _last["len"] = len(SESSION_TEXT)
    if status == "slow":
        return [Failure(f"slow:after_session:{c['kind']}:{c['session']}", f"a session of {c['n']} short parses under {c['session']!r} followed by one ordinary description of {len(SESSION_TEXT)} characters: {cpu:.1f} s of CPU "
                        f"(limit {timing.THRESHOLD_CPU_S} s for the description, {c['n'] * 0.006 + timing.THRESHOLD_CPU_S:.0f} s for the session)",
                        cpu=cpu, session=c["session"])]
    if status == "inconclusive":
        note_excluded("inconclusive_wall_timeout_without_cpu")
    if status == "error":
        raise HarnessError(f"timing worker failed: {cpu}")
    return []


SUBS = [
    Sub("pump_atoms", oracle, enumerate=enum_pump, nontrivial=lambda c: _last.get("len", 0) >= 100, classes=classes, render=render, exhaustive=True,
        shards={"quick": 16, "thorough": 16}, budget_s={"quick": 170, "thorough": 1500}, max_shrink=0),
    Sub("tract_pump_atoms", oracle, enumerate=enum_tract_pump, nontrivial=lambda c: _last.get("len", 0) >= 100, classes=classes, render=render,
        exhaustive=True, shards={"quick": 8, "thorough": 16}, budget_s={"quick": 170, "thorough": 1500}, max_shrink=0),
    Sub("pump_atoms_modes", oracle, enumerate=enum_mode_pump, nontrivial=lambda c: _last.get("len", 0) >= 100, classes=classes, render=render, exhaustive=True,
        shards={"quick": 16, "thorough": 16}, budget_s={"quick": 170, "thorough": 1500}, max_shrink=0),
    Sub("pump_pairs", oracle, strategy=lambda tier: PAIR_CASE, nontrivial=lambda c: _last.get("len", 0) >= 100, classes=classes, render=render,
        n={"quick": 1500, "thorough": 15000}, shards={"quick": 8, "thorough": 16}, budget_s={"quick": 170, "thorough": 1500}, max_shrink=0),
    Sub("repetition", oracle, strategy=lambda tier: REP_CASE, nontrivial=lambda c: _last.get("len", 0) >= 100, classes=classes, render=render,
        n={"quick": 600, "thorough": 5000}, shards={"quick": 4, "thorough": 16}, essential=tuple(f"rep={k}" for k in REP_KINDS), max_shrink=12),
    Sub("soup", oracle, strategy=lambda tier: SOUP_CASE, nontrivial=lambda c: _last.get("len", 0) >= 100, classes=classes, render=render,
        n={"quick": 800, "thorough": 8000}, shards={"quick": 4, "thorough": 16}, text_keys=("text",), max_shrink=20),
    Sub("short_shapes", oracle, enumerate=enum_shapes, nontrivial=lambda c: c.get("token") in RARE_SHAPES, classes=lambda c: [f"status={_last.get('status')}", f"entry={c['kind']}"], render=render,
        exhaustive=True, shards={"quick": 8, "thorough": 16}, budget_s={"quick": 170, "thorough": 1500}, max_shrink=0),
    Sub("long_session", oracle_session, enumerate=enum_sessions, nontrivial=lambda c: True, classes=lambda c: [f"session={c['session']}", f"status={_last.get('status')}"],
        render=lambda c: c, exhaustive=False, shards={"quick": 7, "thorough": 7}, budget_s={"quick": 170, "thorough": 1500}, max_shrink=0),
]
