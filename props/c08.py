"""C08 - Twp/Rge spellings are equivalent; missing directions come from defaults only."""
import re

from hypothesis import strategies as st

from vlib.core import Sub, Failure
from vlib import env

pytrs = env.import_pytrs()
from pytrs import PLSSDesc, MasterConfig, Config, find_twprge  # noqa: E402

ID = "C08"
RULE = (
    "1..3 Twp/Rges per text, numbers of 1-3 digits biased to collide (1/11/111, equal numbers with different directions, "
    "repeats) x 12 full spellings and 14 spellings with N/S and/or E/W left out x default_ns/default_ew supplied through "
    "{config text, parse() keyword, MasterConfig (set before or after the object is created), a plain parse after a parse with one-off keywords, nothing} and independently to find_twprge; numbers optionally zero-padded to 2 or 3 digits; plus OCR look-alike letters "
    "(I, l, O, S for 1, 1, 0, 5) substituted into the numbers of T..R.. spellings under ocr_scrub. Each Twp/Rge heads a "
    "'Sec N: block' tract; optionally a parse mode that is conservative on such text (segment, the colon modes, a forced TRS_desc layout, sec_within, "
    "parse_qq with clean_qq) is switched on as well. Expected natural forms, tracts and the fixed_twprge warning are computed from the abstract value. "
    "Non-trivial: >= 2 Twp/Rges, or a missing direction, or an OCR substitution. Distinct = distinct abstract case."
)
ASSUMPTIONS = [
    "A Twp/Rge written without E/W is followed by a section keyword, never by text starting with E or W (inherent ambiguity).",
    "Range '2' is only written with an explicit R (documented).",
]

FULL = {
    "std": "T{t}{N}-R{r}{W}", "words": "Township {t} {North}, Range {r} {West}", "words_nocomma": "Township {t} {North} Range {r} {West}",
    "abbr": "Twp. {t} {N}., Rge. {r} {W}.", "dashed": "T-{t}-{N}-R-{r}-{W}", "lower": "t{t}{n}-r{r}{w}", "space": "T{t}{N} R{r}{W}",
    "bare": "{t}{N}-{r}{W}", "dotted": "T. {t} {N}., R. {r} {W}.", "comma": "T{t}{N}, R{r}{W}", "spaced": "T {t} {N}, R {r} {W}",
    "bare_words": "{t} {North}, {r} {West}",
}
NO_BOTH = {"T-R": "T{t}-R{r}", "words": "Township {t}, Range {r}", "abbr": "Twp. {t}, Rge. {r}", "dashed": "T-{t}-R-{r}"}
NO_NS = {"T-W": "T{t}-{r}{W}", "words": "Township {t}, {r} {West}", "words_R": "Township {t}, Range {r} {West}", "abbr": "Twp. {t}, {r} {W}.",
         "dashed": "T-{t}-{r}-{W}", "T-RW": "T{t}-R{r}{W}"}
NO_EW = {"TN-R": "T{t}{N}-R{r}", "words": "Township {t} {North}, Range {r}", "bareN-R": "{t}{N}-R{r}", "spaced": "T {t} {N}, R {r}",
         "abbr": "Twp. {t} {N}., Rge. {r}"}
OCR = {"std": "T{t}{N}-R{r}{W}", "words": "Township {t} {North}, Range {r} {West}", "abbr": "Twp. {t} {N}., Rge. {r} {W}.", "dashed": "T-{t}-{N}-R-{r}-{W}"}
_WORD = {"n": "North", "s": "South", "e": "East", "w": "West"}
BLOCKS = ["NE/4", "Lots 1 - 3", "That part lying north of the river", "ALL", "W/2, less and except the road"]

MODES = ["", "", "", "segment", "sec_colon_cautious", "sec_colon_required", "TRS_desc", "segment,sec_colon_cautious", "parse_qq,clean_qq", "sec_within"]

NUM = st.one_of(st.sampled_from([1, 11, 111, 2, 22, 3, 13, 31, 9, 10, 100, 101, 154, 15, 54, 97, 7, 150, 105, 510]), st.integers(1, 999))


def lookalike(num_str, picks):
    out = ""
    for i, ch in enumerate(num_str):
        p = picks[i % len(picks)]
        if ch == "1" and p in (1, 2):
            out += "I" if p == 1 else "l"
        elif ch == "0" and p == 1:
            out += "O"
        elif ch == "5" and p == 1:
            out += "S"
        else:
            out += ch
    return out


@st.composite
def case(draw, ocr=False):
    n = draw(st.integers(1, 3))
    trs = []
    for i in range(n):
        twp, rge = draw(NUM), draw(NUM)
        if i and draw(st.integers(0, 3)) == 0:
            twp, rge = trs[0]["twp"], trs[0]["rge"]       # same numbers again (perhaps other directions)
        tr = {"twp": twp, "rge": rge, "ns": draw(st.sampled_from("ns")), "ew": draw(st.sampled_from("ew")),
              "sec": draw(st.integers(1, 36)), "block": draw(st.sampled_from(BLOCKS))}
        if ocr:
            tr["missing"] = "none"
            tr["sp"] = draw(st.sampled_from(sorted(OCR)))
            tr["picks"] = draw(st.lists(st.integers(0, 2), min_size=3, max_size=3))
        else:
            tr["case"] = draw(st.sampled_from(["asis", "asis", "lower", "upper"]))
            tr["zpad"] = draw(st.sampled_from([0, 0, 0, 2, 3]))       # numbers written with leading zeros up to this width ('T04N-R08W')
            tr["missing"] = draw(st.sampled_from(["none", "none", "both", "ns", "ew"]))
            table = {"none": FULL, "both": NO_BOTH, "ns": NO_NS, "ew": NO_EW}[tr["missing"]]
            tr["sp"] = draw(st.sampled_from(sorted(table)))
            if tr["sp"] in ("bare", "bare_words") and tr["rge"] == 2:
                tr["sp"] = "std"
        trs.append(tr)
    return {
        "trs": trs, "sep": draw(st.sampled_from([", ", "\n", ";\n", "\n\n", "\r\n", ";\r\n", "\r\n\r\n"])), "tsep": draw(st.sampled_from([" ", "\n", ", ", "\r\n"])),
        "channel": draw(st.sampled_from(["config", "config_long", "kw", "kw_over_config", "master", "master_late", "none", "plain_after_one_off_kw", "preprocess_one_kw", "config_from_kwargs", "config_from_dict"])),
        "dns": draw(st.sampled_from("ns")), "dew": draw(st.sampled_from("ew")), "ocr": ocr,
        # an optional parse mode that is conservative on these texts (every Twp/Rge heads 'Sec N: block'): the reading of the Twp/Rges may not depend on it
        "mode": draw(st.sampled_from(MODES)),
    }


def tr_text(tr, ocr=False):
    table = OCR if ocr else {"none": FULL, "both": NO_BOTH, "ns": NO_NS, "ew": NO_EW}[tr["missing"]]
    t, r = str(tr["twp"]), str(tr["rge"])
    if tr.get("zpad"):
        t, r = t.zfill(tr["zpad"]), r.zfill(tr["zpad"])
    if ocr:
        t, r = lookalike(t, tr["picks"]), lookalike(r, tr["picks"][::-1])
    out = table[tr["sp"]].format(t=t, r=r, N=tr["ns"].upper(), W=tr["ew"].upper(), n=tr["ns"], w=tr["ew"],
                                 North=_WORD[tr["ns"]], West=_WORD[tr["ew"]])
    if not ocr and tr.get("case") == "lower":
        out = out.lower()
    elif not ocr and tr.get("case") == "upper":
        out = out.upper()
    return out


def text_of(c):
    parts = [f"{tr_text(tr, c['ocr'])}{c['tsep']}Sec {tr['sec']}: {tr['block']}" for tr in c["trs"]]
    return c["sep"].join(parts)


def defaults_in_force(c):
    if c["channel"] == "none":
        return "n", "w"
    return c["dns"], c["dew"]


def expected(c):
    dns, dew = defaults_in_force(c)
    nat, tracts = [], []
    for tr in c["trs"]:
        ns = dns if tr["missing"] in ("both", "ns") else tr["ns"]
        ew = dew if tr["missing"] in ("both", "ew") else tr["ew"]
        nat.append(f"T{tr['twp']}{ns.upper()}-R{tr['rge']}{ew.upper()}")
        tracts.append((f"{tr['twp']}{ns}{tr['rge']}{ew}{tr['sec']:02d}", tr["block"]))
    return nat, tracts


NATURAL = re.compile(r"T\d{1,3}[NS]-R\d{1,3}[EW]")


def oracle(c):
    text = text_of(c)
    nat, tracts = expected(c)
    dns, dew = defaults_in_force(c)
    fails = []
    old = (MasterConfig.default_ns, MasterConfig.default_ew)
    try:
        ch = c["channel"]
        ocr_cfg = ",".join(x for x in ("ocr_scrub" if c["ocr"] else "", c.get("mode", "")) if x)
        if ch == "config":
            d = PLSSDesc(text, config=",".join(x for x in (dns, dew, ocr_cfg) if x))
        elif ch == "config_long":
            d = PLSSDesc(text, config=",".join(x for x in (f"default_ns.{dns}", f"default_ew={dew}", ocr_cfg) if x))
        elif ch == "kw":
            d = PLSSDesc(text, wait_to_parse=True)
            d.parse(default_ns=dns, default_ew=dew, ocr_scrub=bool(c["ocr"]))
        elif ch == "kw_over_config":
            # the config string says the opposite; the keyword wins
            opp = ",".join(x for x in ({"n": "s", "s": "n"}[dns], {"e": "w", "w": "e"}[dew], ocr_cfg) if x)
            d = PLSSDesc(text, config=opp, wait_to_parse=True)
            d.parse(default_ns=dns, default_ew=dew)
        elif ch == "plain_after_one_off_kw":
            # a parse with the opposite defaults as one-off keywords, then a plain parse: the configured defaults are back in force
            opp_ns, opp_ew = {"n": "s", "s": "n"}[dns], {"e": "w", "w": "e"}[dew]
            d = PLSSDesc(text, config=",".join(x for x in (dns, dew, ocr_cfg) if x), wait_to_parse=True)
            d.parse(default_ns=opp_ns, default_ew=opp_ew)
            d.preprocess(default_ns=opp_ns, commit=True)
            d.parse()
        elif ch == "preprocess_one_kw":
            # preprocess() given one of the two defaults as a keyword takes the other one from the configuration
            d = PLSSDesc(text, config=",".join(x for x in (dns, dew, ocr_cfg) if x), wait_to_parse=True)
            for kwp in ({"default_ns": dns}, {"default_ew": dew}, {}):
                pre = d.preprocess(**kwp)
                if NATURAL.findall(pre) != nat:
                    fails.append(Failure("preprocess_one_keyword", f"{text!r} [config {dns},{dew}]: preprocess({kwp}) has {NATURAL.findall(pre)}, expected {nat}", text=text, want=nat))
                    break
            d.parse()
        elif ch in ("config_from_kwargs", "config_from_dict"):
            # a Config object built by the alternative constructors
            settings = {"default_ns": dns, "default_ew": dew}
            for x in ocr_cfg.split(","):
                if x in ("TRS_desc",):
                    settings["layout"] = x
                elif x:
                    settings[x] = True
            cfg_obj = Config.from_kwargs(**settings) if ch == "config_from_kwargs" else Config.from_dict(settings)
            d = PLSSDesc(text, config=cfg_obj)
        elif ch == "master":
            MasterConfig.default_ns, MasterConfig.default_ew = dns, dew
            d = PLSSDesc(text, config=ocr_cfg)
        elif ch == "master_late":
            # created first, MasterConfig set afterwards: the defaults in force when parsing count
            d = PLSSDesc(text, config=ocr_cfg, wait_to_parse=True)
            MasterConfig.default_ns, MasterConfig.default_ew = dns, dew
            d.parse()
        else:
            d = PLSSDesc(text, config=ocr_cfg)
        ctx = dict(text=text, channel=ch, defaults=[dns, dew], pp_desc=d.pp_desc, want=nat, mode=c.get("mode", ""))
        label = ch + ("+" + c["mode"] if c.get("mode") else "")
        got_nat = NATURAL.findall(d.pp_desc)
        if got_nat != nat:
            fails.append(Failure("pp_desc_twprge", f"{text!r} [{label} {dns}{dew}]: preprocessed text has {got_nat}, expected {nat}", **ctx))
        got_tr = [(t.trs, t.desc) for t in d.tracts]
        if got_tr != tracts:
            fails.append(Failure("tracts", f"{text!r} [{label} {dns}{dew}]: tracts {got_tr}, expected {tracts}", got=got_tr, want_tracts=tracts, **ctx))
        any_missing = any(tr["missing"] != "none" for tr in c["trs"])
        has_flag = any(isinstance(f, str) and f.startswith("fixed_twprge<") for f in d.w_flags)
        if not c["ocr"] and has_flag != any_missing:
            fails.append(Failure("fixed_twprge_flag", f"{text!r}: fixed_twprge warning present={has_flag}, a direction was missing={any_missing}; w_flags={d.w_flags}", **ctx))
        # find_twprge with the defaults passed as arguments (or MasterConfig in force)
        kw = {} if ch in ("master", "master_late", "none") else {"default_ns": dns, "default_ew": dew}
        got_f = find_twprge(text, preprocess=True, ocr_scrub=bool(c["ocr"]), **kw)
        if got_f != nat:
            fails.append(Failure("find_twprge", f"find_twprge({text!r}, preprocess=True, {kw}) = {got_f}, expected {nat}", **ctx))
        if not c["ocr"]:
            # digits are digits: asking find_twprge to scrub OCR look-alikes as well changes nothing (and does not lose the defaults)
            got_o = find_twprge(text, preprocess=True, ocr_scrub=True, **kw)
            if got_o != nat:
                fails.append(Failure("find_twprge_ocr_on_plain_digits", f"find_twprge({text!r}, preprocess=True, ocr_scrub=True, {kw}) = {got_o}, expected {nat}", **ctx))
            # ... nor does the setting, through the configuration: same Twp/Rges, and the warning about filled-in directions is still given
            if ch in ("config", "kw", "none"):
                o = PLSSDesc(text, config=",".join(x for x in ((dns, dew) if ch != "none" else ()) + ("ocr_scrub", c.get("mode", "")) if x))
                o_flag = any(isinstance(f, str) and f.startswith("fixed_twprge<") for f in o.w_flags)
                o_tflag = all(any(str(f).startswith("fixed_twprge<") for f in t.w_flags) for t in o.tracts)
                if [(t.trs, t.desc) for t in o.tracts] != tracts or o_flag != any_missing or (any_missing and not o_tflag):
                    fails.append(Failure("ocr_scrub_on_plain_digits", f"{text!r} with ocr_scrub switched on as well: tracts {[(t.trs, t.desc) for t in o.tracts]} w_flags {o.w_flags} "
                                         f"(a direction was missing={any_missing}), expected {tracts}", **ctx))
            # Twp/Rges written one directly after the other (a list of townships): each one is found and completed on its own
            for joiner in (", ", " ", "\n", ",\n"):
                adj = joiner.join(tr_text(tr) for tr in c["trs"])
                got_a = find_twprge(adj, preprocess=True, **kw)
                if got_a != nat:
                    fails.append(Failure("find_twprge_adjacent", f"find_twprge({adj!r}, preprocess=True, {kw}) = {got_a}, expected {nat}", **ctx))
                    break
        if not any_missing and not c["ocr"]:
            got_raw = find_twprge(text)
            if got_raw != nat:
                fails.append(Failure("find_twprge_raw", f"find_twprge({text!r}) = {got_raw}, expected {nat}", **ctx))
    finally:
        MasterConfig.default_ns, MasterConfig.default_ew = old
    return fails


def validate(c):
    if not c["trs"]:
        return False
    for tr in c["trs"]:
        if not (1 <= tr["twp"] <= 999 and 1 <= tr["rge"] <= 999 and 1 <= tr["sec"] <= 99):
            return False
        if tr["sp"] in ("bare", "bare_words") and tr["rge"] == 2:
            return False
    return True


def nontrivial(c):
    return len(c["trs"]) >= 2 or any(tr["missing"] != "none" for tr in c["trs"]) or c["ocr"]


def classes(c):
    out = {f"channel={c['channel']}", f"n={len(c['trs'])}", f"mode={c.get('mode', '')}"}
    for tr in c["trs"]:
        out.add(f"case={tr.get('case', 'asis')}")
        out.add(f"missing={tr['missing']}")
        if tr.get("zpad") and (len(str(tr["twp"])) < tr["zpad"] or len(str(tr["rge"])) < tr["zpad"]):
            out.add("zero_padded")
        out.add(f"sp={tr['missing']}:{tr['sp']}")
    if "\r" in c["sep"] + c["tsep"]:
        out.add("windows_line_ends")
    nums = [(tr["twp"], tr["rge"]) for tr in c["trs"]]
    if len(set(nums)) < len(nums):
        out.add("same_numbers_twice")
    strs = [str(tr["twp"]) for tr in c["trs"]]
    if any(a != b and (a in b) for a in strs for b in strs):
        out.add("number_substring_collision")
    return sorted(out)


def render(c):
    return {"text": text_of(c), "channel": c["channel"], "defaults": [c["dns"], c["dew"]], "mode": c.get("mode", ""), "expected": expected(c)[0]}


SUBS = [
    Sub("spellings", oracle, strategy=lambda tier: case(), validate=validate, nontrivial=nontrivial, classes=classes, render=render,
        n={"quick": 1000, "thorough": 15000}, shards={"quick": 8, "thorough": 16},
        essential=("missing=both", "missing=ns", "missing=ew", "channel=config", "channel=kw", "channel=master", "channel=master_late", "channel=kw_over_config", "channel=plain_after_one_off_kw", "channel=preprocess_one_kw", "zero_padded", "windows_line_ends", "case=lower", "case=upper", "same_numbers_twice", "mode=segment", "mode=sec_colon_required", "mode=TRS_desc",
                   "number_substring_collision")),
    Sub("ocr", oracle, strategy=lambda tier: case(ocr=True), validate=validate, nontrivial=nontrivial, classes=classes, render=render,
        n={"quick": 500, "thorough": 6000}, shards={"quick": 4, "thorough": 16}),
]
