"""C06 - tract parsing is compositional: lots, divisions, acreages and aliquots."""
from hypothesis import strategies as st

from vlib.core import Sub, Failure, note_excluded
from vlib import env, lists as L, aliquot as aq

pytrs = env.import_pytrs()
from pytrs import Tract, PLSSDesc, TractList  # noqa: E402

ID = "C06"
RULE = (
    "Sequences of 1..6 elements, each a lot list (single / range / 'and' list, any keyword and connective spelling, optional "
    "'(acres)' or '[acres]' on single lots), an aliquot-of-lots division ('N/2 of Lots 1 - 3'), an aliquot chain of length 1..3 "
    "(slash or glyph spelling) or a final ALL; separators ', ' '; ' ',\\n' ';\\n'; x suppress_lot_divs x depth settings. Oracle: "
    "(a) differential - the whole equals the concatenation of what each element yields alone under the same settings; "
    "(b) independent model for lots, divisions, acreages, ilots, lots_qqs and the duplicate warnings. Non-trivial: >= 3 "
    "elements mixing a lot element and an aliquot element. Distinct = distinct rendered text x configuration."
)
ASSUMPTIONS = [
    "A bare line break between an aliquot chain and a following element is only generated after a comma or semicolon (DESIGN 6.4).",
    "ALL is generated as the final (or only) element (DESIGN 6.4).",
    "Acreages are attached to single-number list items, not to range ends.",
]

SEPS = [", ", "; ", ",\n", ";\n", ",  "]
CONFIGS = ["", "suppress_lot_divs", "qq_depth_min.1", "qq_depth.1", "qq_depth_max.2", "break_halves",
           "suppress_lot_divs,qq_depth_min.3", "qq_depth_min.1,qq_depth_max.2"]
OF = [" of ", " ", "  ", " of\n"]


@st.composite
def lot_element(draw):
    lst = draw(L.rendered_list("lot", 99, max_items=3))
    acres = {}
    for i, it in enumerate(lst["items"]):
        if it[0] == "single" and draw(st.integers(0, 3)) == 0:
            val = draw(st.sampled_from(["38.29", "40", "40.01", "0.5", "39.876", "123.456789"]))
            br = draw(st.sampled_from(["()", "[]"]))
            sp = draw(st.sampled_from(["", " "]))
            acres[str(i)] = f"{sp}{br[0]}{val}{br[1]}"
    return {"kind": "lots", "lst": lst, "acres": acres}


@st.composite
def div_element(draw):
    lst = draw(L.rendered_list("lot", 99, max_items=3))
    chain = draw(aq.chain_strategy(1, 2))
    acres = {}
    for i, it in enumerate(lst["items"]):
        if it[0] == "single" and draw(st.integers(0, 3)) == 0:
            acres[str(i)] = draw(st.sampled_from(["(19.85)", " (20)", "[20.01]", " [0.5]"]))
    return {"kind": "div", "lst": lst, "acres": acres, "chain": chain, "of": draw(st.sampled_from(OF)),
            "style": draw(st.sampled_from(["slash", "glyph"]))}


@st.composite
def aliquot_element(draw):
    return {"kind": "aliquot", "chain": draw(aq.chain_strategy(1, 3)), "style": draw(st.sampled_from(["slash", "glyph", "slash", "glyph", "fracfree"]))}


def case():
    @st.composite
    def build(draw):
        els = draw(st.lists(st.one_of(lot_element(), div_element(), aliquot_element(), aliquot_element()), min_size=1, max_size=6))
        if draw(st.integers(0, 7)) == 0:
            els = els[:5] + [{"kind": "all"}]
        seps = draw(st.lists(st.sampled_from(SEPS), min_size=len(els), max_size=len(els)))
        # a bare line break is a separator everywhere except after an aliquot chain (DESIGN 6.4)
        for i in range(1, len(els)):
            if els[i - 1]["kind"] in ("lots", "div") and draw(st.integers(0, 3)) == 0:
                seps[i] = draw(st.sampled_from(["\n", "\n\n", " \n"]))
        return {"els": els, "seps": seps, "config": draw(st.sampled_from(CONFIGS)),
                # how suppress_lot_divs reaches the parse: through the config (as written in "config"), or through / against a keyword
                "suppress_via": draw(st.sampled_from(["config", "config", "kw", "kw_false_over_config", "kw_true_over_config", "config_reassigned"])),
                "reparse": draw(st.sampled_from(["none", "none", "same_same_toggled", "dry_run_other_settings"]))}
    return build()


def chain_text(chain, style):
    if style == "fracfree":
        # 'N2NENW': bare quarters are aliquots in a run directly after a half (C07), whatever separator follows
        k = 0
        while k < len(chain) and chain[k] in aq.HALVES:
            k += 1
        if k >= 1 and all(x in aq.QUARTERS for x in chain[k:]):
            return aq.frac_free(chain)
        return aq.canonical_text(chain)
    if style == "glyph":
        return aq.canonical_text(chain)
    return "".join(c + ("/2" if c in aq.HALVES else "/4") for c in chain)


def el_text(e):
    if e["kind"] == "all":
        return "ALL"
    if e["kind"] == "aliquot":
        return chain_text(e["chain"], e["style"])
    lots = L.render(e["lst"]["items"], e["lst"]["r"], e["acres"])
    if e["kind"] == "div":
        of = e["of"]
        return chain_text(e["chain"], e["style"]) + of + lots
    return lots


def full_text(c):
    out = ""
    for i, e in enumerate(c["els"]):
        if i:
            out += c["seps"][i]
        out += el_text(e)
    return out


def model_lots(e, suppress):
    """Expected lots of one lot/div element, from the abstract model."""
    items, r = e["lst"]["items"], e["lst"]["r"]
    nums = L.expand(items)
    names = [f"L{n}" for n in nums]
    if e["kind"] == "div" and not suppress:
        # the division applies up to the second occurrence of the word 'Lot'
        k = len(items)
        for i in range(1, len(items)):
            if r["repeat_item"][i]:
                k = i
                break
        n_div = len(L.expand(items[:k]))
        pre = aq.frac_free(e["chain"])
        names = [f"{pre} of {nm}" if j < n_div else nm for j, nm in enumerate(names)]
    return names, nums


def model_acres(e):
    out = {}
    for i, it in enumerate(e["lst"]["items"]):
        a = e["acres"].get(str(i))
        if a:
            out.setdefault(f"L{it[1]}", []).append(a.strip().strip("()[]"))
    return out


def validate(c):
    if not c["els"] or len(c["seps"]) != len(c["els"]):
        return False
    for i, e in enumerate(c["els"]):
        if e["kind"] == "all" and i != len(c["els"]) - 1:
            return False
        if i and c["seps"][i].strip(" ") in ("\n", "\n\n") and c["els"][i - 1]["kind"] not in ("lots", "div"):
            return False
        if e["kind"] in ("aliquot", "div") and (not e["chain"] or any(x not in aq.COMPONENTS for x in e["chain"])):
            return False
        if e["kind"] in ("lots", "div"):
            items = e["lst"]["items"]
            if not items:
                return False
            for it in items:
                if it[0] == "single":
                    if not 1 <= it[1] <= 99:
                        return False
                elif not (1 <= it[1] <= 99 and 1 <= it[2] <= 99 and it[1] != it[2]):
                    return False
    return True


def nontrivial(c):
    kinds = {e["kind"] for e in c["els"]}
    return len(c["els"]) >= 3 and bool(kinds & {"lots", "div"}) and bool(kinds & {"aliquot", "all"})


def classes(c):
    out = set()
    ks = [e["kind"] for e in c["els"]]
    for a, b in zip(ks, ks[1:]):
        out.add(f"{a}->{b}")
    if any(sp.strip(" ") in ("\n", "\n\n") for sp in c["seps"][1:]):
        out.add("bare_linebreak")
    if any(e.get("acres") for e in c["els"]):
        out.add("acreage")
    if any(e.get("acres") and e["kind"] == "div" for e in c["els"]):
        out.add("div_with_acreage")
    if "suppress_lot_divs" in c["config"]:
        out.add("suppress")
    out.add(f"via={c.get('suppress_via')}")
    out.add(f"reparse={c.get('reparse')}")
    return sorted(out)


def has_dup(lst):
    return len(set(lst)) != len(lst)


def make_tract(text, cfg, via):
    """Build and parse a Tract; returns (tract, effective suppress_lot_divs)."""
    base = ",".join(x for x in cfg.split(",") if x and not x.startswith("suppress_lot_divs"))
    want = "suppress_lot_divs" in cfg
    if via == "kw":
        t = Tract(text, config=base)
        t.parse(suppress_lot_divs=want)
        return t, want
    if via == "kw_false_over_config":
        t = Tract(text, config=",".join(x for x in (base, "suppress_lot_divs") if x))
        t.parse(suppress_lot_divs=False)
        return t, False
    if via == "kw_true_over_config":
        t = Tract(text, config=",".join(x for x in (base, "suppress_lot_divs.False") if x))
        t.parse(suppress_lot_divs=True)
        return t, True
    if via == "config_reassigned":
        # configured the other way round first, then re-configured with an explicit value, then parsed
        first = ",".join(x for x in (base, "suppress_lot_divs.False" if want else "suppress_lot_divs") if x)
        t = Tract(text, parse_qq=True, config=first)
        t.config = ",".join(x for x in (base, "suppress_lot_divs.True" if want else "suppress_lot_divs.False") if x)
        t.parse()
        return t, want
    return Tract(text, parse_qq=True, config=cfg), want


def _dups(tr):
    return sorted(f for f in map(str, tr.w_flags) if f.startswith(("dup_lot<", "dup_qq<")))


def in_lists(text, cfg, suppress):
    """The tracts of a multi-section block, re-parsed together under the other division setting; tracts that were configured
    differently, parsed together as one list: each must give what a stand-alone Tract with its settings gives."""
    fails = []
    base = ",".join(x for x in cfg.split(",") if x and not x.startswith("suppress_lot_divs"))
    cfg_of = {True: ",".join(x for x in (base, "suppress_lot_divs") if x), False: ",".join(x for x in (base, "suppress_lot_divs.False") if x)}
    ref = {k: Tract(text, parse_qq=True, config=v) for k, v in cfg_of.items()}
    d = PLSSDesc(f"T154N-R97W Sec 14, 15: {text}", config=cfg, parse_qq=True)
    if [x.trs for x in d.tracts] == ["154n97w14", "154n97w15"]:
        d.parse_tracts(suppress_lot_divs=not suppress)
        for k, pt in enumerate(d.tracts):
            r = ref[not suppress]
            if (list(pt.lots), list(pt.qqs), _dups(pt)) != (list(r.lots), list(r.qqs), _dups(r)):
                fails.append(Failure("multisec_reparsed", f"PLSSDesc('T154N-R97W Sec 14, 15: ' + {text!r}, {cfg!r}, parse_qq=True) then parse_tracts(suppress_lot_divs={not suppress}): "
                                     f"tract {k} has {pt.lots} {pt.qqs} {_dups(pt)}, a stand-alone Tract with these settings {r.lots} {r.qqs} {_dups(r)}", text=text, config=cfg))
                return fails
    else:
        note_excluded("description_not_two_tracts_in_plssdesc")
    for order in ((True, False), (False, True)):
        members = [Tract(text, trs=f"154n97w{k + 1:02d}", config=cfg_of[sup]) for k, sup in enumerate(order)]
        TractList(members).parse_tracts()
        for sup, m in zip(order, members):
            r = ref[sup]
            if (list(m.lots), list(m.qqs), _dups(m)) != (list(r.lots), list(r.qqs), _dups(r)):
                fails.append(Failure("mixed_settings_list", f"TractList of Tract({text!r}) configured {[cfg_of[x] for x in order]}, parse_tracts(): the one configured {cfg_of[sup]!r} has "
                                     f"{m.lots} {m.qqs} {_dups(m)}, parsed alone it has {r.lots} {r.qqs} {_dups(r)}", text=text, config=cfg))
                return fails
    return fails


def oracle(c):
    cfg = c["config"]
    text = full_text(c)
    t, suppress = make_tract(text, cfg, c.get("suppress_via", "config"))
    cfg = ",".join(x for x in cfg.split(",") if x and not x.startswith("suppress_lot_divs"))
    if suppress:
        cfg = ",".join(x for x in (cfg, "suppress_lot_divs") if x)
    fails = []
    ctx = dict(text=text, config=cfg, lots=list(t.lots), qqs=list(t.qqs))
    # (a) differential against the parts
    part_lots, part_qqs, part_whole = [], [], []
    for e in c["els"]:
        p = Tract(el_text(e), parse_qq=True, config=cfg)
        part_lots += list(p.lots)
        part_qqs += list(p.qqs)
        part_whole += list(p.aliquots_whole)
        # (b) independent model per element
        if e["kind"] in ("lots", "div"):
            want, _ = model_lots(e, suppress)
            if list(p.lots) != want:
                fails.append(Failure("element_lots", f"{el_text(e)!r} [{cfg}] alone gives lots {p.lots}, expected {want}", element=el_text(e)))
            if p.qqs:
                fails.append(Failure("element_spurious_qq", f"{el_text(e)!r} [{cfg}] alone gives qqs {p.qqs}, expected none", element=el_text(e)))
        elif e["kind"] == "aliquot":
            if p.lots or list(p.aliquots_whole) != [aq.frac_free(e["chain"])]:
                fails.append(Failure("element_aliquot", f"{el_text(e)!r} alone gives lots {p.lots} / aliquots_whole {p.aliquots_whole}", element=el_text(e)))
        elif e["kind"] == "all":
            if p.lots or not p.qqs:
                fails.append(Failure("element_all", f"'ALL' alone gives lots {p.lots} / qqs {p.qqs}"))
    if list(t.lots) != part_lots:
        fails.append(Failure("compose_lots", f"{text!r} [{cfg}]: lots {t.lots} != concatenation of parts {part_lots}", **ctx))
    if list(t.qqs) != part_qqs:
        fails.append(Failure("compose_qqs", f"{text!r} [{cfg}]: qqs {t.qqs} != concatenation of parts {part_qqs}", **ctx))
    if list(t.aliquots_whole) != part_whole:
        fails.append(Failure("compose_whole", f"{text!r} [{cfg}]: aliquots_whole {t.aliquots_whole} != parts {part_whole}", **ctx))
    if list(t.lots_qqs) != list(t.lots) + list(t.qqs):
        fails.append(Failure("lots_qqs", f"{text!r}: lots_qqs {t.lots_qqs} != lots + qqs", **ctx))
    # ilots mirrors lots
    want_nums = []
    for e in c["els"]:
        if e["kind"] in ("lots", "div"):
            want_nums += model_lots(e, suppress)[1]
    if list(t.ilots) != want_nums:
        fails.append(Failure("ilots", f"{text!r}: ilots {t.ilots}, expected {want_nums}", **ctx))
    # acreages
    want_acres = {}
    for e in c["els"]:
        if e["kind"] in ("lots", "div"):
            for k, v in model_acres(e).items():
                want_acres.setdefault(k, []).extend(v)
    got_acres = dict(t.lot_acres)
    if set(got_acres) != set(want_acres):
        fails.append(Failure("acres_keys", f"{text!r}: lot_acres {got_acres}, stated acreages {want_acres}", **ctx))
    else:
        for k, v in got_acres.items():
            if v not in want_acres[k]:
                fails.append(Failure("acres_value", f"{text!r}: lot_acres[{k}] = {v!r}, stated {want_acres[k]}", **ctx))
    # the same description as the tract of a PLSSDesc gives what the stand-alone Tract gives
    for tmpl in ("T154N-R97W Sec 14: {}", "Sec 14: {}, T154N-R97W"):
        d = PLSSDesc(tmpl.format(text), config=cfg, parse_qq=True)
        if len(d.tracts) != 1 or d.tracts[0].trs != "154n97w14":
            note_excluded("description_not_one_tract_in_plssdesc")
            continue
        pt = d.tracts[0]
        got = (list(pt.lots), list(pt.qqs), dict(pt.lot_acres))
        want = (list(t.lots), list(t.qqs), dict(t.lot_acres))
        if got != want:
            fails.append(Failure("via_plssdesc", f"PLSSDesc({tmpl.format(text)!r}, {cfg!r}): tract has lots/qqs/lot_acres {got}, the stand-alone Tract({text!r}) has {want}",
                                 tract_desc=pt.desc, **ctx))
            break
    if not fails:
        fails += in_lists(text, cfg, suppress)
    # duplicate warnings exactly when warranted
    got_dl = any(f.startswith("dup_lot<") for f in t.w_flags)
    got_dq = any(f.startswith("dup_qq<") for f in t.w_flags)
    if got_dl != has_dup(list(t.lots)):
        fails.append(Failure("dup_lot_flag", f"{text!r}: dup_lot warning present={got_dl} but lots={t.lots}", w_flags=list(t.w_flags), **ctx))
    if got_dq != has_dup(list(t.qqs)):
        fails.append(Failure("dup_qq_flag", f"{text!r}: dup_qq warning present={got_dq} but qqs={t.qqs}", w_flags=list(t.w_flags), **ctx))
    if c.get("reparse") == "same_same_toggled" and not fails:
        # parse again twice with the same settings, then once with divisions toggled: the warnings must follow the results
        t.parse(suppress_lot_divs=suppress)
        t.parse(suppress_lot_divs=suppress)
        t.parse(suppress_lot_divs=not suppress)
        got_dl = any(f.startswith("dup_lot<") for f in t.w_flags)
        got_dq = any(f.startswith("dup_qq<") for f in t.w_flags)
        if got_dl != has_dup(list(t.lots)) or got_dq != has_dup(list(t.qqs)):
            fails.append(Failure("dup_flag_after_reparse", f"{text!r}: after re-parsing with suppress_lot_divs={not suppress}: dup warnings lot={got_dl} qq={got_dq} but lots={t.lots} qqs={t.qqs}",
                                 w_flags=list(t.w_flags), **ctx))
        t.parse(suppress_lot_divs=suppress)
    if c.get("reparse") == "dry_run_other_settings" and not fails:
        # a trial parse under other settings is not committed: every attribute, also the derived ones, still shows the committed parse
        before = (list(t.lots), list(t.qqs), list(t.lots_qqs), list(t.ilots), dict(t.lot_acres), list(t.aliquots_whole), sorted(map(str, t.w_flags)))
        t.parse(commit=False, suppress_lot_divs=not suppress, qq_depth=1, clean_qq=True)
        after = (list(t.lots), list(t.qqs), list(t.lots_qqs), list(t.ilots), dict(t.lot_acres), list(t.aliquots_whole), sorted(map(str, t.w_flags)))
        if after != before:
            k = next(i for i, (a, b) in enumerate(zip(before, after)) if a != b)
            name = ("lots", "qqs", "lots_qqs", "ilots", "lot_acres", "aliquots_whole", "w_flags")[k]
            fails.append(Failure(f"dry_run_changed:{name}", f"{text!r} [{cfg}]: after parse(commit=False, other settings) {name} is {after[k]}, was {before[k]}", **ctx))
        elif list(t.lots_qqs) != list(t.lots) + list(t.qqs):
            fails.append(Failure("lots_qqs_after_dry_run", f"{text!r}: lots_qqs {t.lots_qqs} != lots + qqs after a dry run", **ctx))
    n_dl = sum(1 for f in t.w_flags if f.startswith("dup_lot<"))
    n_dq = sum(1 for f in t.w_flags if f.startswith("dup_qq<"))
    if n_dl > 1 or n_dq > 1:
        fails.append(Failure("dup_flag_repeated", f"{text!r}: duplicate warnings repeated: {t.w_flags}", **ctx))
    return fails


def render(c):
    return {"text": full_text(c), "config": c["config"]}


SUBS = [
    Sub("compose", oracle, strategy=lambda tier: case(), validate=validate, nontrivial=nontrivial, classes=classes, render=render,
        n={"quick": 800, "thorough": 15000}, shards={"quick": 12, "thorough": 16},
        essential=("lots->aliquot", "aliquot->lots", "div->aliquot", "aliquot->div", "lots->div", "aliquot->all", "acreage", "suppress", "bare_linebreak", "via=kw_false_over_config", "via=kw_true_over_config", "via=config_reassigned", "reparse=same_same_toggled", "reparse=dry_run_other_settings", "div_with_acreage")),
]
