"""C17 - sorting is a stable multi-key permutation with errors last."""
import itertools

from hypothesis import strategies as st

from vlib.core import Sub, Failure
from vlib import env

pytrs = env.import_pytrs()
from pytrs import Tract, TRS, TractList, TRSList, PLSSDesc  # noqa: E402

ID = "C17"
RULE = (
    "Lists of 0..10 Tract or TRS elements over a deliberately small value space (townships 1..5 n/s, ranges 1..5 e/w, "
    "sections 1..6, plus the error and the undefined placeholder for each component) so that ties and mixed directions are "
    "common, created in shuffled order, possibly holding the same instance twice; key strings of 1..3 keys x variable x "
    "sub-method x optional .rev/.reverse with random case and spacing, through custom_sort, sort() and PLSSDesc.sort_tracts; "
    "the thorough tier enumerates every key string of up to two keys. Oracle: reference model = successive stable sorts left "
    "to right with key (signed number, missing after all valid), list.sort reverse semantics for .rev; the result must be the "
    "same instances in exactly the model's order. Invalid keys (no variable letter, or a direction of the other variable) must "
    "raise ValueError. A history sub-check interleaves sorts (key given as one string, as a list of string keys, or as a list led by a "
    "plain function) with append / extend / += / + / insert / item assignment / pop / clear on the same container and requires every "
    "sort to equal the model applied to the list as it then stands. Non-trivial: >= 3 elements with a tie on the last key and an "
    "error/undefined element; for histories, a sort that follows an earlier sort and a change of the list."
)
ASSUMPTIONS = [
    "Rejection is asserted for keys that contain none of the letters i t r s and for a direction that belongs to the other variable; keys like 't.foo' are accepted by the library with a SyntaxWarning, which the statement does not address (DESIGN 6.8).",
    "The reverse= parameter of custom_sort is not passed together with string keys (documented as having no effect there).",
    "A list passed as key= is the documented equivalent of the comma-separated string (applied left to right); a plain function in that list is applied like list.sort(key=...).",
]

VARS = {"i": ["", ".num"], "t": ["", ".num", ".ns", ".sn"], "r": ["", ".num", ".ew", ".we"], "s": ["", ".num"]}
REV = ["", ".rev", ".reverse"]
ALL_KEYS = [v + m + r for v, ms in VARS.items() for m in ms for r in REV]

COMP_T = [f"{n}{d}" for n in range(1, 6) for d in "ns"] + ["XXXz", "___z"]
COMP_R = [f"{n}{d}" for n in range(1, 6) for d in "ew"] + ["XXXz", "___z"]
COMP_S = [f"{n:02d}" for n in range(1, 7)] + ["XX", "__"]
# boundary values: number 0 and the largest numbers the format allows
EDGE_T = ["0n", "0s", "999n", "999s"]
EDGE_R = ["0e", "0w", "999e", "999w"]
EDGE_S = ["00", "99"]

ELEM = st.tuples(st.sampled_from(COMP_T + COMP_T[:10] + EDGE_T), st.sampled_from(COMP_R + COMP_R[:10] + EDGE_R),
                 st.sampled_from(COMP_S + COMP_S[:6] + EDGE_S)).map(lambda t: "".join(t))


def style_key(keys, style):
    out = []
    for i, k in enumerate(keys):
        s = k
        if style[i % len(style)] == 1:
            s = s.upper()
        elif style[i % len(style)] == 2:
            s = " " + s.replace(".", " . ") + " "
        out.append(s)
    return ",".join(out)


CASE = st.fixed_dictionaries({
    "kind": st.sampled_from(["tract", "tract", "trs", "plss"]),
    "elems": st.lists(ELEM, min_size=0, max_size=10),
    "creation": st.lists(st.integers(0, 1000), min_size=10, max_size=10),   # creation order = argsort of these
    "dup": st.lists(st.integers(0, 9), max_size=2),                          # positions to repeat the same instance
    "keys": st.lists(st.sampled_from(ALL_KEYS), min_size=1, max_size=3),
    "style": st.lists(st.integers(0, 2), min_size=1, max_size=3),
    "via": st.sampled_from(["custom_sort", "custom_sort", "sort_default"]),
    "upper": st.lists(st.booleans(), min_size=10, max_size=10),      # element i is created from the upper-case spelling of its string
})


_TRS = __import__("re").compile(r"(?:(\d{1,3})([ns])|(XXXz|___z))(?:(\d{1,3})([ew])|(XXXz|___z))(\d\d|XX|__)")


def parse_trs(s):
    m = _TRS.fullmatch(s)
    tn = int(m.group(1)) if m.group(1) is not None else None
    rn = int(m.group(4)) if m.group(4) is not None else None
    sec = m.group(7)
    sn = int(sec) if sec.isdigit() else None
    return {"twp_num": tn, "ns": m.group(2), "rge_num": rn, "ew": m.group(5), "sec_num": sn}


def model_sort(recs, keys):
    """recs: list of dicts with 'uid' and parsed components. Successive stable sorts, left to right."""
    out = list(recs)
    big = 10 ** 6

    def keyfun(var, method):
        if var == "i":
            return lambda r: r["uid"]
        if var == "s":
            return lambda r: (r["sec_num"] is None, r["sec_num"] or 0)
        if var == "t":
            num, d, neg = "twp_num", "ns", "n"
        else:
            num, d, neg = "rge_num", "ew", "w"
        if method in ("", ".num"):
            return lambda r: (r[num] is None, r[num] or 0)
        flip = method in (".sn", ".ew")      # south-to-north / east-to-west are the mirrored orders
        def f(r):
            if r[num] is None:
                return (True, 0)
            sign = -1 if r[d] == neg else 1
            if flip:
                sign = -sign
            return (False, sign * r[num])
        return f

    for k in keys:
        var = k[0]
        rev = k.endswith(".rev") or k.endswith(".reverse")
        method = k[1:].replace(".reverse", "").replace(".rev", "")
        out.sort(key=keyfun(var, method), reverse=rev)
    return out


_last = {}


def build(c):
    elems = c["elems"]
    n = len(elems)
    order = sorted(range(n), key=lambda i: (c["creation"][i], i))   # creation order
    objs = [None] * n
    uid = {}
    up = c.get("upper") or [False] * 10

    def spell(i):
        e = elems[i]
        # ('154N97W14' is accepted and standardised to lower case; placeholders are left as they are)
        return e.upper() if up[i % len(up)] and "z" not in e and "X" not in e and "_" not in e else e

    if c["kind"] == "trs":
        for i in range(n):
            objs[i] = TRS(spell(i))
    else:
        for rank, i in enumerate(order):
            # (orig_index: the position each tract had in the description it came from - tracts of several descriptions in one list)
            objs[i] = Tract("NE/4", trs=spell(i), orig_index=(i * 7 + 3) % 5)
            uid[id(objs[i])] = rank
    lst = list(objs)
    for p in c["dup"]:
        if n:
            lst.append(objs[p % n])
    return lst, uid


def oracle(c):
    lst, uid = build(c)
    keys = c["keys"]
    if c["via"] == "sort_default":
        keys = ["i", "s", "r", "t"]
    recs = []
    for pos, o in enumerate(lst):
        r = parse_trs(o.trs)
        r["uid"] = uid.get(id(o), 0)
        r["obj"] = id(o)
        r["trs"] = o.trs
        recs.append(r)
    want = [r["obj"] for r in model_sort(recs, keys)]
    want_trs = [r["trs"] for r in model_sort(recs, keys)]
    keystr = style_key(keys, c["style"])
    if c["kind"] == "trs":
        cont = TRSList(lst)
        held = list(cont)
    elif c["kind"] == "plss":
        d = PLSSDesc("T154N-R97W Sec 14: NE/4")
        d.tracts = TractList(lst)
        cont = d.tracts
    else:
        cont = TractList(lst)
    before_ids = [id(x) for x in cont]
    if c["kind"] == "trs":
        # TRSList holds its own TRS objects: follow those
        remap = {id(o): id(h) for o, h in zip(lst, cont)}
        want = [remap[w] for w in want]
    if c["via"] == "sort_default":
        cont.sort()
    elif c["kind"] == "plss":
        d.sort_tracts(keystr)
    else:
        cont.custom_sort(keystr)
    got = [id(x) for x in cont]
    got_trs = [x.trs for x in cont]
    fails = []
    ctx = dict(key=keystr, before=[r["trs"] for r in recs], got=got_trs, want=want_trs, kind=c["kind"])
    if sorted(got) != sorted(before_ids):
        fails.append(Failure("not_a_permutation", f"custom_sort({keystr!r}) lost or duplicated elements: {got_trs} from {ctx['before']}", **ctx))
    elif got != want:
        if got_trs != want_trs:
            fails.append(Failure(f"wrong_order:{keys[-1][0]}", f"custom_sort({keystr!r}) on {ctx['before']} gives {got_trs}, expected {want_trs}", **ctx))
        else:
            fails.append(Failure("not_stable", f"custom_sort({keystr!r}) on {ctx['before']}: equal elements were reordered", **ctx))
    # non-trivial?
    last = keys[-1]
    kf = {"i": "uid", "t": "twp_num", "r": "rge_num", "s": "sec_num"}[last[0]]
    vals = [r[kf] for r in recs]
    _last["nt"] = len(recs) >= 3 and len(set(vals)) < len(vals) and any(r["twp_num"] is None or r["rge_num"] is None or r["sec_num"] is None for r in recs)
    return fails


def classes(c):
    out = {f"kind={c['kind']}", f"nkeys={len(c['keys'])}", f"via={c['via']}"}
    for k in c["keys"]:
        out.add(f"var={k[0]}")
        if "rev" in k:
            out.add("reversed")
        for m in (".ns", ".sn", ".ew", ".we"):
            if m in k:
                out.add(f"method={m}")
    if any(e.count("z") or "XX" in e or "__" in e for e in c["elems"]):
        out.add("has_missing")
    if any(e.startswith(("0n", "0s", "999")) or "999" in e or e.endswith(("00", "99")) or "n0" in e or "s0" in e for e in c["elems"]):
        out.add("boundary_number")
    if c["dup"] and c["elems"]:
        out.add("same_instance_twice")
    if any(u and "z" not in e and "X" not in e and "_" not in e for u, e in zip(c.get("upper") or [], c["elems"])):
        out.add("created_from_upper_case")
    return sorted(out)


def render(c):
    return {"kind": c["kind"], "elems": c["elems"], "key": style_key(c["keys"], c["style"]), "via": c["via"]}


# every key string of one or two keys, on a fixed pool of lists ------------------

POOL = [
    ["1n1w01", "1s1w01", "2n1e03", "XXXzXXXzXX", "2n1e01", "___z___z__", "1n1w01", "5s5e06", "1n2wXX", "3n___z02"],
    ["2s3e02", "2n3w02", "2n3e__", "XXXz3e02", "1n1w06", "2s3e02", "4n4w04"],
    ["3n3w03", "3n3w03", "3n3w03"],
    [],
]


def enum_keys(tier):
    keys = [[k] for k in ALL_KEYS]
    if tier == "thorough":
        keys += [[a, b] for a in ALL_KEYS for b in ALL_KEYS]
    else:
        keys += [[a, b] for a in ALL_KEYS[::3] for b in ALL_KEYS[1::4]]
    cases = []
    for ks in keys:
        for pi, pool in enumerate(POOL):
            for kind in ("tract", "trs"):
                cases.append({"kind": kind, "elems": pool, "creation": [7, 3, 9, 1, 8, 2, 6, 0, 5, 4], "dup": [1] if pi == 0 else [],
                              "keys": ks, "style": [0], "via": "custom_sort"})
    return cases


# invalid keys ---------------------------------------------------------------------
BAD_KEYS = ["x", "q.num", "abc", "n.w", "", "t.ew", "t.we", "r.ns", "r.sn", "s.ns", "s.ew", "i.we", "i.ns", "t.ew.rev", "r.ns.reverse",
            "s.we", "i.sn", "z,t", "t,q", "s,,t", "t,r.ns", "r.ew,t.we"]
BAD_CASE = st.fixed_dictionaries({"key": st.sampled_from(BAD_KEYS), "kind": st.sampled_from(["tract", "trs", "plss"]),
                                  "elems": st.lists(ELEM, min_size=0, max_size=4), "upper": st.booleans()})


def oracle_bad(c):
    key = c["key"].upper() if c["upper"] else c["key"]
    objs = [Tract("NE/4", trs=e) for e in c["elems"]]
    if c["kind"] == "trs":
        cont = TRSList(objs)
    else:
        cont = TractList(objs)
    try:
        if c["kind"] == "plss":
            d = PLSSDesc("T154N-R97W Sec 14: NE/4")
            d.tracts = cont
            d.sort_tracts(key)
        else:
            cont.custom_sort(key)
    except ValueError:
        return []
    except Exception as exc:  # noqa
        return [Failure("bad_key_wrong_exception", f"custom_sort({key!r}) raised {type(exc).__name__}: {exc!s:.100}, documented ValueError", key=key)]
    if key == "":
        return []     # an empty key string means 'no sort requested'
    return [Failure("bad_key_accepted", f"custom_sort({key!r}) was accepted on a {c['kind']} list of {len(objs)}", key=key)]



# operation histories: sorts interleaved with growth / replacement of the list ---------------------------
# (a sort must be a function of the list as it is now, not of what it held at an earlier sort)

GROW = ["append", "extend", "iadd", "add", "insert", "setitem", "pop", "iadd_container", "clear_and_refill"]
STEP = st.one_of(
    st.tuples(st.just("sort"), st.lists(st.sampled_from(ALL_KEYS), min_size=1, max_size=3), st.sampled_from(["string", "list_of_keys", "list_with_function"])),
    st.tuples(st.sampled_from(GROW), st.lists(ELEM, min_size=1, max_size=3), st.integers(0, 12)),
)
HIST_CASE = st.fixed_dictionaries({
    "kind": st.sampled_from(["tract", "trs"]),
    "elems": st.lists(ELEM, min_size=0, max_size=6),
    "steps": st.lists(STEP, min_size=2, max_size=7),
})


def oracle_history(c):
    kind = c["kind"]
    counter = [0]
    uid = {}

    def mk(e):
        if kind == "trs":
            return TRS(e)
        t = Tract("NE/4", trs=e)
        counter[0] += 1
        uid[id(t)] = counter[0]
        return t

    Cont = TRSList if kind == "trs" else TractList
    cont = Cont([mk(e) for e in c["elems"]])
    fails = []
    nsorts = 0
    grown_since_sort = False
    _last["hist_nt"] = False
    for step in c["steps"]:
        op = step[0]
        if op == "sort":
            keys, form = step[1], step[2]
            before = list(cont)
            recs = []
            for o in before:
                r = parse_trs(o.trs)
                r["uid"] = uid.get(id(o), 0)
                r["obj"] = id(o)
                r["trs"] = o.trs
                recs.append(r)
            if form == "list_with_function":
                # a plain function key in front of the string keys: documented to be applied first, like list.sort
                want_recs = model_sort(sorted(recs, key=lambda r: r["trs"]), keys)
                cont.custom_sort([lambda x: x.trs] + [k for k in keys])
            elif form == "list_of_keys":
                want_recs = model_sort(recs, keys)
                cont.custom_sort(list(keys))
            else:
                want_recs = model_sort(recs, keys)
                cont.custom_sort(",".join(keys))
            got = [id(x) for x in cont]
            ctx = dict(keys=keys, form=form, before=[r["trs"] for r in recs], got=[x.trs for x in cont], want=[r["trs"] for r in want_recs],
                       sorts_before=nsorts, kind=kind)
            if sorted(got) != sorted(r["obj"] for r in recs):
                fails.append(Failure("history_not_a_permutation", f"sort #{nsorts + 1} ({form}, {keys}) lost or duplicated elements: {ctx['got']} from {ctx['before']}", **ctx))
                return fails
            if got != [r["obj"] for r in want_recs]:
                fails.append(Failure(f"history_wrong_order:{form}", f"sort #{nsorts + 1} ({form}, {keys}) on {ctx['before']} gives {ctx['got']}, expected {ctx['want']}", **ctx))
                return fails
            if nsorts and grown_since_sort:
                _last["hist_nt"] = True
            nsorts += 1
            grown_since_sort = False
        else:
            new = [mk(e) for e in step[1]]
            pos = step[2]
            n = len(cont)
            if op == "append":
                cont.append(new[0])
            elif op == "extend":
                cont.extend(new)
            elif op == "iadd":
                cont += new
            elif op == "iadd_container":
                cont += Cont(new)
            elif op == "add":
                cont = cont + new
            elif op == "insert":
                cont.insert(pos % (n + 1), new[0])
            elif op == "setitem":
                if n:
                    cont[pos % n] = new[0]
            elif op == "pop":
                if n:
                    cont.pop(pos % n)
            elif op == "clear_and_refill":
                while len(cont):
                    cont.pop()
                cont.extend(new)
            grown_since_sort = True
    return fails


def classes_history(c):
    out = {f"kind={c['kind']}"}
    for st_ in c["steps"]:
        out.add("op=" + st_[0])
        if st_[0] == "sort":
            out.add("form=" + st_[2])
    if _last.get("hist_nt"):
        out.add("sorted_again_after_change")
    return sorted(out)


SUBS = [
    Sub("random", oracle, strategy=lambda tier: CASE, nontrivial=lambda c: bool(_last.get("nt")), classes=classes, render=render,
        n={"quick": 1500, "thorough": 15000}, shards={"quick": 8, "thorough": 16},
        essential=("kind=tract", "kind=trs", "kind=plss", "var=i", "var=t", "var=r", "var=s", "reversed", "method=.ns", "method=.sn", "method=.ew",
                   "method=.we", "has_missing", "same_instance_twice", "nkeys=3", "boundary_number", "created_from_upper_case")),
    Sub("all_keys", oracle, enumerate=enum_keys, nontrivial=lambda c: bool(_last.get("nt")), classes=classes, render=render, exhaustive=True,
        shards={"quick": 4, "thorough": 16}),
    Sub("invalid_keys", oracle_bad, strategy=lambda tier: BAD_CASE, classes=lambda c: [f"key={c['key']}"], render=lambda c: c,
        n={"quick": 300, "thorough": 2000}, shards={"quick": 2, "thorough": 4}),
    Sub("history", oracle_history, strategy=lambda tier: HIST_CASE, nontrivial=lambda c: bool(_last.get("hist_nt")), classes=classes_history,
        render=lambda c: c, n={"quick": 800, "thorough": 8000}, shards={"quick": 4, "thorough": 16},
        essential=("sorted_again_after_change", "form=list_of_keys", "form=list_with_function", "op=iadd", "op=setitem", "kind=trs", "kind=tract")),
]
