"""Decode a libFuzzer byte string into a structured parse case (needs atheris's FuzzedDataProvider)."""
import os
import sys

from . import env, soup, configs

BOOLS = [b for b in configs.BOOLS if b != "wait_to_parse"]
ENTRIES = ["init", "init_cfgobj", "parse_kw", "parse_kw_nocommit", "config_then_parse"]
SPACING = [" ", " ", "", "\n", ", ", "  ", ": "]


def decode(data):
    sys.path.insert(0, os.path.join(env.VERIF_ROOT, ".deps"))
    import atheris
    fdp = atheris.FuzzedDataProvider(data)
    cfg = {}
    mask = fdp.ConsumeIntInRange(0, (1 << len(BOOLS)) - 1)
    vals = fdp.ConsumeIntInRange(0, (1 << len(BOOLS)) - 1)
    for i, b in enumerate(BOOLS):
        if mask >> i & 1 and fdp.ConsumeBool():
            cfg[b] = bool(vals >> i & 1)
    k = fdp.ConsumeIntInRange(0, 7)
    if k & 1:
        cfg["default_ns"] = "ns"[fdp.ConsumeIntInRange(0, 1)]
    if k & 2:
        cfg["default_ew"] = "ew"[fdp.ConsumeIntInRange(0, 1)]
    if k & 4:
        cfg["layout"] = configs.LAYOUTS[fdp.ConsumeIntInRange(0, 4)]
    d = fdp.ConsumeIntInRange(0, 15)
    if d & 1:
        cfg["qq_depth_min"] = fdp.ConsumeIntInRange(1, 3)
    if d & 2:
        cfg["qq_depth_max"] = max(cfg.get("qq_depth_min", 2), fdp.ConsumeIntInRange(1, 4))
    if d & 4:
        cfg["qq_depth"] = fdp.ConsumeIntInRange(1, 3)
    entry = ENTRIES[fdp.ConsumeIntInRange(0, len(ENTRIES) - 1)]
    if fdp.ConsumeIntInRange(0, 5) == 0:
        text = fdp.ConsumeUnicodeNoSurrogates(120)
        kind = "raw"
    else:
        n = fdp.ConsumeIntInRange(0, 16)
        text = ""
        for _ in range(n):
            text += soup.TOKENS[fdp.ConsumeIntInRange(0, len(soup.TOKENS) - 1)]
            text += SPACING[fdp.ConsumeIntInRange(0, len(SPACING) - 1)]
        kind = "soup"
    text = text[:300]
    return {"text": {"kind": kind, "text": text}, "cfg": cfg, "style": dict(configs.PLAIN_STYLE), "entry": entry, "source": "fuzz"}
