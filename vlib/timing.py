"""
CPU-time measurement of one parse in an isolated, killable worker process.

The parent keeps one worker per shard alive; each request is one JSON line.  The worker reports the CPU seconds
(time.process_time) the parse took.  If no answer arrives within WALL_LIMIT the parent reads the worker's CPU time from
/proc, kills it and starts another one.  Only CPU time decides: a wall-clock timeout with little CPU used (a loaded
machine) is reported as inconclusive, never as slow.
"""
import json
import os
import select
import subprocess
import sys
import time

if __package__:
    from . import env
else:       # executed as the worker script
    sys.path.insert(0, os.path.dirname(os.path.dirname(os.path.abspath(__file__))))
    from vlib import env

THRESHOLD_CPU_S = 2.0        # "a couple of seconds"
WALL_LIMIT_S = 4 * THRESHOLD_CPU_S

_worker = None


def _spawn():
    cmd = [sys.executable, "-B", "-u", os.path.abspath(__file__), "--worker"]
    e = dict(os.environ, PYTHONHASHSEED="0", VERIF_REPO=env.REPO, PYTHONPATH=env.VERIF_ROOT)
    return subprocess.Popen(cmd, stdin=subprocess.PIPE, stdout=subprocess.PIPE, stderr=subprocess.DEVNULL, env=e, cwd=env.VERIF_ROOT, text=True, bufsize=1)


def _proc_cpu(pid):
    try:
        with open(f"/proc/{pid}/stat") as fh:
            parts = fh.read().rsplit(")", 1)[1].split()
        tick = os.sysconf("SC_CLK_TCK")
        return (int(parts[11]) + int(parts[12])) / tick
    except Exception:
        return None


def measure(text, kind="plss", config="", warmup=None):
    """Return ('ok', cpu_seconds) | ('slow', cpu_seconds_so_far) | ('inconclusive', None) | ('error', message)."""
    global _worker
    if _worker is None or _worker.poll() is not None:
        _worker = _spawn()
    cpu_before = _proc_cpu(_worker.pid) or 0.0
    try:
        _worker.stdin.write(json.dumps({"text": text, "kind": kind, "config": config, "warmup": warmup}) + "\n")
        _worker.stdin.flush()
    except Exception:
        _worker = None
        return ("inconclusive", None)
    # a session of n short parses normally costs n x ~0.4 ms; fifteen times that much CPU means the cost per parse creeps up
    warm_cpu_limit = (warmup["n"] * 0.006 + THRESHOLD_CPU_S) if warmup else None
    deadline = time.time() + WALL_LIMIT_S + (4 * warm_cpu_limit if warmup else 0)
    while True:
        remaining = deadline - time.time()
        if remaining <= 0:
            break
        r, _, _ = select.select([_worker.stdout], [], [], min(remaining, 0.5))
        if r:
            line = _worker.stdout.readline()
            if not line:
                _worker = None
                return ("error", "worker died")
            ans = json.loads(line)
            if "error" in ans:
                return ("error", ans["error"])
            if warmup and ans.get("warm_cpu", 0) > warm_cpu_limit:
                return ("slow", ans["warm_cpu"])
            return ("slow" if ans["cpu"] > THRESHOLD_CPU_S else "ok", ans["cpu"])
        used = (_proc_cpu(_worker.pid) or 0.0) - cpu_before
        if used > (THRESHOLD_CPU_S * 1.5 if not warmup else warm_cpu_limit * 1.2):
            break
    used = (_proc_cpu(_worker.pid) or 0.0) - cpu_before
    try:
        _worker.kill()
        _worker.wait(timeout=5)
    except Exception:
        pass
    _worker = None
    if used > (THRESHOLD_CPU_S if not warmup else warm_cpu_limit):
        return ("slow", used)
    return ("inconclusive", None)


def shutdown():
    global _worker
    if _worker is not None:
        try:
            _worker.kill()
        except Exception:
            pass
        _worker = None


def _worker_main():
    try:        # a parse that runs away may also eat memory: cap the worker, so that it dies on its own if the parent is slow to stop it
        import resource
        resource.setrlimit(resource.RLIMIT_AS, (3 << 30, 3 << 30))
    except Exception:
        pass
    sys.path.insert(0, env.VERIF_ROOT)
    env.import_pytrs()
    import pytrs
    import warnings
    warnings.simplefilter("ignore")
    for line in sys.stdin:
        req = json.loads(line)
        wu = req.get("warmup")
        warm_cpu = 0.0
        if wu:
            w0 = time.process_time()
            # a long session first: n parses of a short text under the given settings (not timed), then the timed parse
            try:
                for k in range(int(wu["n"])):
                    if wu.get("kind") == "tract":
                        pytrs.Tract(wu["text"], parse_qq=True, config=wu.get("config") or None)
                    else:
                        pytrs.PLSSDesc(wu["text"].replace("{k}", str(k % 900 + 1)), parse_qq=True, config=wu.get("config") or None)
            except Exception:
                pass
            warm_cpu = time.process_time() - w0
        t0 = time.process_time()
        try:
            cfg = req.get("config") or None
            if req["kind"] == "tract":
                pytrs.Tract(req["text"], parse_qq=True, config=cfg)
            else:
                pytrs.PLSSDesc(req["text"], parse_qq=True, config=cfg)
            out = {"cpu": time.process_time() - t0, "warm_cpu": warm_cpu}
        except Exception as exc:  # the timing property does not judge exceptions (C03 does)
            out = {"cpu": time.process_time() - t0, "exc": type(exc).__name__}
        sys.stdout.write(json.dumps(out) + "\n")
        sys.stdout.flush()


if __name__ == "__main__" and "--worker" in sys.argv:
    _worker_main()
