"""Drive an atheris / libFuzzer campaign of fuzz/fuzz_parse.py from a check (thorough tier only)."""
import glob
import json
import os
import re
import shutil
import subprocess
import sys
import tempfile

from . import env
from .core import Failure, HarnessError, note_excluded

SEED_TEXTS = [
    "T154N-R97W Sec 14: NE/4", "T154N-R97W\nSection 14: NE/4\nSection 15: W/2", "NE/4 of Section 14, T154N-R97W",
    "Section 14: NE/4, T154N-R97W", "T154N-R97W\nNE/4 of Section 14", "Township 154 North, Range 97 West Secs 1 - 3: Lots 1 - 4, S/2N/2",
    "T154N-R97W Sec 14: N/2 of Lot 1, less and except the wellbore", "That part of Sec 14 lying north of the river, T154N-R97W",
    "T154-R97 Sec 14 NE/4", "TIS4N-R97W Sec 14: NE, SW",
]


def available():
    try:
        sys.path.insert(0, os.path.join(env.VERIF_ROOT, ".deps"))
        import atheris  # noqa
        return True
    except Exception:
        return False


def campaign(prop, seed, seconds, corpus="empty", jobs=8):
    """Run one campaign. Returns (executions, [crashing inputs as bytes])."""
    work = os.path.join(env.OUT_ROOT, ".work", "fuzz")
    os.makedirs(work, exist_ok=True)
    d = tempfile.mkdtemp(prefix=f"{prop}-{corpus}-", dir=work)
    cdir = os.path.join(d, "corpus")
    os.makedirs(cdir)
    if corpus == "seeded":
        # byte strings that decode to tokens are not meaningful as text, so seed with raw-text-mode inputs:
        # selector bytes are arbitrary; libFuzzer mutates from there
        for i, t in enumerate(SEED_TEXTS):
            with open(os.path.join(cdir, f"seed{i}"), "wb") as fh:
                fh.write(bytes([0] * 12) + t.encode("utf-8"))
    cmd = [os.path.join(env.VERIF_ROOT, "fuzz", "fuzz_parse.py"), cdir, f"-seed={max(1, seed)}", f"-max_total_time={seconds}", "-max_len=256",
           f"-artifact_prefix={d}/", f"-fork={jobs}", "-ignore_crashes=1", "-print_final_stats=1"]
    e = dict(os.environ, FUZZ_PROPS=prop, VERIF_REPO=env.REPO, PYTHONHASHSEED="0")
    try:
        p = subprocess.run(cmd, cwd=d, env=e, capture_output=True, text=True, timeout=seconds * 4 + 120)
        out = p.stdout + p.stderr
    except subprocess.TimeoutExpired as exc:
        out = (exc.stdout or "") + (exc.stderr or "") if isinstance(exc.stdout, str) else ""
    execs = 0
    for m in re.finditer(r"#(\d+): cov:", out):
        execs = max(execs, int(m.group(1)))
    m = re.search(r"stat::number_of_executed_units:\s*(\d+)", out)
    if m:
        execs = max(execs, int(m.group(1)))
    crashes = []
    for f in sorted(glob.glob(os.path.join(d, "crash-*"))):
        crashes.append(open(f, "rb").read())
    if execs == 0 and not crashes:
        tail = out[-600:]
        shutil.rmtree(d, ignore_errors=True)
        raise HarnessError(f"fuzz campaign produced no executions: {tail}")
    shutil.rmtree(d, ignore_errors=True)
    return execs, crashes


def fuzz_sub(prop_id, plss_sub_getter, last):
    """Build the thorough-tier fuzz Sub for a property module (C03, C09, C10, C11)."""
    from .core import Sub, safe_oracle
    from .fuzzdecode import decode

    def oracle(c):
        if "decoded" in c:                      # replay of a crashing input, no fuzzer involved
            return safe_oracle(plss_sub_getter(), c["decoded"])
        if not available():
            note_excluded("atheris_not_installed_campaign_skipped")
            last["execs"] = 0
            return []
        execs, crashes = campaign(prop_id, env.seed(), c["seconds"], c["campaign"])
        last["execs"] = execs
        fails = []
        for data in crashes[:25]:
            case = decode(data)
            for f in safe_oracle(plss_sub_getter(), case):
                f["detail"]["replay_case"] = {"decoded": case}
                f["detail"]["fuzz_input_hex"] = data.hex()
                fails.append(f)
        return fails

    def enum(tier):
        if tier != "thorough":
            return []
        return [{"campaign": "empty", "seconds": 100}, {"campaign": "seeded", "seconds": 100}]

    return Sub("fuzz", oracle, enumerate=enum, shards={"quick": 1, "thorough": 2},
               nontrivial=lambda c: last.get("execs", 0) > 1000,
               classes=lambda c: [f"campaign={c.get('campaign', 'replay')}", f"executions_thousands={last.get('execs', 0) // 1000}"],
               render=lambda c: c, max_shrink=0, budget_s={"quick": 10, "thorough": 3000})
