"""Token soup / arbitrary text / damaged descriptions for the totality-style properties."""
import functools

from hypothesis import strategies as st

from . import grammar as G

TOKENS = [
    # Twp/Rge in all spellings and fragments of them
    "T154N-R97W", "T155N-R97W", "Township 154 North, Range 97 West", "Twp. 154 N., Rge. 97 W.", "154N-97W", "t1s-r2e",
    "T154N", "R97W", "T154-R97", "T154N-R97", "T154-R97W", "154-97", "T 154 N", "Range 97 West", "Township", "Range", "T", "R",
    "TIS4N-R97W", "T1S4N-R9TW", "T1o4N-R97W", "Ti54N-R9oW", "tl5sN-rI7w", "T|54N-R97W", "T15]N-R97W", "T2N-R2W", "N2 W2", "T154N-R97W of the 5th P.M.", "5th P.M.", "Principal Meridian", "P.M.",
    # sections
    "Sec", "Sec.", "Section", "Sections", "Secs", "§", "Sec 14", "Section 14", "Sec 14:", "Sec. 15:", "Sections 1 - 3", "Sec 1, 2 and 3:",
    "Sec 5 through Sec 2", "Secs 14 & 15", "§ 36", "Section 100", "Sec 0", "of Section 14", "in Section 15", "said Section 14", "within Sec 2",
    # digits that are not ASCII (PDF / OCR text): they are digits to the patterns
    "Sec １４", "Section ٣:", "Lot ２", "T１５４N-R９７W", "Lots １ - ３", "T154N-R97W Sec １４: NE/4", "NE/4 of Section ٣, T2N-R2W", "Secs ７ - ９: ALL",
    # zero and zero-padded bounds
    "Sec 0 - 3", "Sec 00 through 02", "Sections 3 - 0", "Sec 00", "Lots 0 - 2", "Lot 00", "Lot 0", "Lots 2 - 0", "Secs. 1 - 3", "Sects. 9 thru 7",
    # lots
    "Lot", "Lots", "Lot 1", "Lots 1 - 3", "Lot 2(38.29)", "L4", "Lots 1, 2 and 5", "Lot 3 [40.1]", "N/2 of Lot 1", "Lots 4 - 2", "Lot 1, Lot 1",
    # aliquots
    "NE/4", "N/2", "NE", "SW¼", "N½", "S/2N/2", "Northeast Quarter", "North Half", "E/2W/2", "NW/4NE/4", "N2", "SE4", "W 1/2", "ALL", "All of",
    "NE/4NE/4NE/4NE/4", "N/2N/2N/2", "SE/4W/2",
    # spelled-out quarters without the word 'Quarter', dotted abbreviations, worded halves
    "Northeast", "North West", "south-east", "SOUTHWEST", "N.E.", "N/2 of the Northeast", "South Half of the North West", "W/2 south-east",
    "N2NENE", "E2NENW", "NORTH HALF OF THE SOUTHWEST QUARTER", "Quarter", "Half",
    # acreages
    "Lots 1(38.00), 2(39.10), 1(38.00)", "Lot 2(38.29), Lot 2(38.29)", "L1(40)", "(38.00)", "[40.1]", "Lots 1 - 3(40)", "1(38.00)", "2 (39.1)",
    # empty acreage brackets; a section colon glued to what follows it
    "Lot 1()", "L2[]", "Lots 1(38.29), 2[]", "L1() thru L4", "()", "[]", "Lot 3( )", "Lots 1 - 3()",
    "Sec 14:T154N-R97W", "Sec 15:T155N-R97W", "Sec 1, 2 and 3:T2S-R2E", "Sec 14:NE/4", "Section 14:Lot 1", "T154N-R97W:Sec 14",
    # connectives / punctuation
    ":", ",", ";", ".", "-", "–", "—", "and", "&", "through", "thru", "to", "of", "of the", "in", "all", "the", "/", "(", ")", "[", "]",
    # numbers
    "1", "2", "3", "14", "36", "100", "1000", "0", "00", "000", "007", "40 acres", "38.29",
    # prose and flag triggers
    "less and except", "except", "limited to", "insofar as", "including", "surface to the base of", "depths", "formation", "wellbore", "well",
    "That part", "lying north of the river", "Beginning at a point", "thence north 200 feet", "equipment", "development", "right-of-way",
    "QJXKQ", "\n", "\n\n", "\t", "  ",
]

ALPHABET = ("abcdefghijklmnopqrstuvwxyzABCDEFGHIJKLMNOPQRSTUVWXYZ" + "0123456789" * 3 + " " * 12 + "\n\t\r" + ".,;:-/()[]&'\"#*_|~"
            + "½¼§–—°é中")

_SPACING = st.sampled_from([" ", " ", " ", "", "\n", ", ", "  "])
_TIGHT = st.sampled_from(["", "", "", " ", ",", ":", ";"])          # tokens glued together (no white space to separate them)


def _join(t):
    toks, gaps = t
    out = ""
    for i, tok in enumerate(toks):
        out += tok
        if i < len(toks) - 1:
            out += gaps[i % len(gaps)]
    return out


TOKEN_SOUP = st.tuples(st.lists(st.sampled_from(TOKENS), min_size=0, max_size=14),
                       st.one_of(st.lists(_SPACING, min_size=1, max_size=14), st.lists(_SPACING, min_size=1, max_size=14),
                                 st.lists(_SPACING, min_size=1, max_size=14), st.lists(_TIGHT, min_size=1, max_size=14))).map(_join)
RAW_TEXT = st.text(alphabet=ALPHABET, max_size=60)


def _damage(t):
    text, ops = t
    toks = text.split(" ")
    for kind, pos, extra in ops:
        if not toks:
            break
        i = pos % len(toks)
        if kind == "del":
            del toks[i]
        elif kind == "dup":
            toks.insert(i, toks[i])
        elif kind == "swap" and len(toks) > 1:
            j = (i + 1) % len(toks)
            toks[i], toks[j] = toks[j], toks[i]
        elif kind == "trunc":
            toks = toks[:i + 1]
        elif kind == "nocolon":
            toks = [x.replace(":", "") for x in toks]
        elif kind == "ins":
            toks.insert(i, extra)
    return " ".join(toks)


_OP = st.tuples(st.sampled_from(["del", "dup", "swap", "trunc", "nocolon", "ins", "ins"]), st.integers(0, 60),
                st.sampled_from(["T155N-R98W", "Sec 9:", "of", "and", "Section", "Lot 2", "NE/4", ":", ",", "QJXKQ"]))
DAMAGED = st.tuples(G.description(None, 2, 2).map(G.render), st.lists(_OP, min_size=1, max_size=3)).map(_damage)
WELL_FORMED = G.description(None, 2, 2).map(G.render)


def _tag(kind):
    return lambda s: {"kind": kind, "text": s}


def _crlf(t):
    tagged, k = t
    if k == 0 and "\n" in tagged["text"] and "\r" not in tagged["text"]:
        return {"kind": tagged["kind"], "text": tagged["text"].replace("\n", "\r\n")}      # Windows line ends
    return tagged


ANY_TEXT = st.tuples(st.one_of(TOKEN_SOUP.map(_tag("soup")), TOKEN_SOUP.map(_tag("soup")), RAW_TEXT.map(_tag("raw")),
                               DAMAGED.map(_tag("damaged")), WELL_FORMED.map(_tag("wellformed"))), st.integers(0, 4)).map(_crlf)

# texts known to be slow (C16 findings) are steered away from by construction in every other property
import re as _re
_SLOW = [
    _re.compile(r"(Sec\w*\.?|§|Lots?|L\.?|Lt\.?)\s*\d+\s*([\.,;:/\-–—&]\s*|and\s*|to\s*|thru\.?\s*|through\.?\s*){6,}", _re.I),
    _re.compile(r"\s{12,}"),
]


def looks_slow(text):
    return any(r.search(text) for r in _SLOW)
