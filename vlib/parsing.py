"""Shared entry-point drivers for the string x configuration properties (C03, C09, C10, C11)."""
from hypothesis import strategies as st

from . import env, configs, soup

pytrs = env.import_pytrs()
from pytrs import PLSSDesc, Tract, Config  # noqa: E402

PLSS_PARSE_KW = ["layout", "default_ns", "default_ew", "parse_qq", "clean_qq", "sec_colon_cautious", "sec_colon_required",
                 "segment", "ocr_scrub", "sec_within", "qq_depth_min", "qq_depth_max", "qq_depth", "break_halves"]
TRACT_PARSE_KW = ["clean_qq", "suppress_lot_divs", "qq_depth_min", "qq_depth_max", "qq_depth", "break_halves"]

ENTRIES = ["init", "init", "init_cfgobj", "parse_kw", "parse_kw_nocommit", "config_then_parse", "source_assigned_then_parse"]

CASE_FIELDS = {
    "text": soup.ANY_TEXT,
    "cfg": configs.config_values(exclude=("wait_to_parse",)),
    "style": configs.STYLE,
    "entry": st.sampled_from(ENTRIES),
    # ({"path": ...} stands for a pathlib.Path: the file the text was read from)
    "source": st.sampled_from([None, "doc-17", 42, 0, "", {"path": "deeds/book 12/doc-17.txt"}]),
}


def source_of(case):
    src = case.get("source")
    if isinstance(src, dict) and "path" in src:
        import pathlib
        return pathlib.Path(src["path"])
    return src
CASE = st.fixed_dictionaries(CASE_FIELDS)


def make_plss(case, parse_qq=True):
    """Create (and parse) a PLSSDesc through the entry point named in the case. Returns (desc, tracts)."""
    text = case["text"]["text"]
    cfg = case["cfg"]
    ctext = configs.to_text(cfg, case["style"])
    entry = case["entry"]
    src = source_of(case)
    pq = True if parse_qq else None
    if entry == "source_assigned_then_parse":
        # created without a source tag (and not parsed yet); the tag is assigned afterwards, then the text is parsed
        d = PLSSDesc(text, config=ctext, parse_qq=pq, wait_to_parse=True)
        d.source = src
        d.parse()
        return d, d.tracts
    if entry == "init":
        d = PLSSDesc(text, config=ctext, parse_qq=pq, source=src)
        return d, d.tracts
    if entry == "init_cfgobj":
        d = PLSSDesc(text, config=Config(ctext), parse_qq=pq, source=src)
        return d, d.tracts
    if entry == "config_then_parse":
        d = PLSSDesc(text, source=src, wait_to_parse=True)
        d.config = ctext
        if pq:
            d.parse_qq = True
        tr = d.parse()
        return d, d.tracts
    kw = configs.to_kwargs(cfg, PLSS_PARSE_KW)
    if pq:
        kw["parse_qq"] = True
    if entry == "parse_kw":
        d = PLSSDesc(text, source=src)
        d.parse(**kw)
        return d, d.tracts
    if entry == "parse_kw_nocommit":
        d = PLSSDesc(text, source=src)
        tr = d.parse(commit=False, **kw)
        return d, tr
    raise ValueError(entry)


def text_classes(case):
    t = case["text"]
    out = [f"gen={t['kind']}", f"entry={case['entry']}"]
    for k in ("segment", "sec_within", "sec_colon_required", "sec_colon_cautious", "ocr_scrub", "clean_qq"):
        if case["cfg"].get(k):
            out.append(f"cfg={k}")
    if case["cfg"].get("layout"):
        out.append("cfg=layout")
    return out


def render(case):
    return {"text": case["text"]["text"], "config": configs.to_text(case["cfg"], case["style"]), "entry": case["entry"]}


def make_plss_or_skip(case, parse_qq=True):
    """
    For properties that speak about what a parse produced (C09, C10): a parse that raises produced nothing, which is a matter
    for the totality property C03, not a violation of theirs.  Returns None (and counts the exclusion) in that case.
    """
    from .core import note_excluded, exception_failure
    try:
        return make_plss(case, parse_qq)
    except Exception as exc:  # noqa
        if exception_failure(exc, "parse") is None:      # not a library exception: harness trouble, let it propagate
            raise
        note_excluded("parse_raised_nothing_produced_(C03_decides)")
        return None
