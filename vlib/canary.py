"""
Canary parses: a fixed set of (text, settings) pairs whose results are recorded the first time they are asked for in a
process - before the first generated case is run - and asked for again after a case.  Whatever a case did to its own
objects, these results may not change: a difference means that some call left state behind in the library (a module-level
list, a class attribute, a cache) that alters later parses.  The comparison is between two runs of the same code in the
same process, so it cannot be wrong about what the library "should" return.
"""
from . import env

pytrs = env.import_pytrs()
from pytrs import PLSSDesc, Tract, TRS, find_twprge, find_sec  # noqa: E402

PLSS_INPUTS = [
    ("TI54N-R97W Sec 14: NE/4", ""),                                  # needs ocr_scrub to be read
    ("Township lS4 North, Range 97 West\nSection 14: NE/4", ""),
    ("T154-R97 Sec 14: NE/4, Sec 15: W/2", ""),                        # missing directions -> defaults
    ("T154N-R97W Section 14 NE/4, Section 15: W/2", ""),               # colon-less section
    ("T154N-R97W Section 14 NE/4, Section 15: W/2", "sec_colon_required"),
    ("T154N-R97W Secs 14 - 16, 21 thru 19: NE, Lots 1 - 3, Lot 2(40.1)", "parse_qq"),
    ("That part of Sec 14, T154N-R97W lying north of the river", "sec_within"),
    ("Stray words T154N-R97W Sec 14: N/2NE/4, less and except the wellbore\nT155N-R97W Sec 1: ALL trailing", "segment"),
    ("NE/4 of Sec 14, T154N-R97W", ""),
    ("no land description here", ""),
]
TRACT_INPUTS = [
    ("N/2NE/4, NE, Lots 4 - 1, Lot 2(38.5), N/2 of Lot 7", ""),
    ("N/2NE/4, NE, Lots 4 - 1, Lot 2(38.5), N/2 of Lot 7", "clean_qq,qq_depth_min.3"),
    ("North Half of the Southwest Quarter, ALL", "break_halves"),
]


def snapshot():
    out = []
    for text, cfg in PLSS_INPUTS:
        d = PLSSDesc(text, config=cfg or None)
        out.append(("PLSSDesc", text, cfg, d.pp_desc, d.current_layout, sorted(map(str, d.e_flags)), sorted(map(str, d.w_flags)),
                    [(t.trs, t.desc, list(t.lots), list(t.qqs), sorted(map(str, t.w_flags))) for t in d.tracts]))
    for text, cfg in TRACT_INPUTS:
        t = Tract(text, trs="154n97w14", parse_qq=True, config=cfg or None)
        out.append(("Tract", text, cfg, t.pp_desc, list(t.lots), list(t.qqs), dict(t.lot_acres), sorted(map(str, t.w_flags))))
    out.append(("find_twprge", find_twprge("T154-R97 and Township 1 South, Range 2 East", preprocess=True)))
    out.append(("find_sec", find_sec("Sections 14, 15 and 18 thru 16")))
    out.append(("TRS", [(TRS(s).trs, TRS(s).is_error(), TRS(s).is_undef()) for s in ("154n97w14", "154n97wXX", "XXXzXXXz14", "asdf", "", "1s2e__")]))
    return out


_first = None


def arm():
    """Record the reference results (once per process, before anything else ran)."""
    global _first
    if _first is None:
        _first = snapshot()


def changed():
    """Return a description of the first canary whose result differs from the reference, or None."""
    now = snapshot()
    for a, b in zip(_first, now):
        if a != b:
            return f"{a[0]}({a[1]!r}{', ' + repr(a[2]) if len(a) > 2 and isinstance(a[2], str) and a[2] else ''}) first gave {a[3:]!r:.300}, now gives {b[3:]!r:.300}"
    return None
