"""Interpreter / path / seed plumbing.  Imports pytrs from $VERIF_REPO (default /repo)."""
import os
import sys

VERIF_ROOT = os.path.dirname(os.path.dirname(os.path.abspath(__file__)))
REPO = os.path.abspath(os.environ.get("VERIF_REPO", "/repo"))
GUARD = "JAMESPIMES_PYTRS_VERIF"
# evidence and newly written replay files go here (the selftest redirects them to a scratch dir)
OUT_ROOT = os.path.abspath(os.environ.get("VERIF_OUT", VERIF_ROOT))

sys.dont_write_bytecode = True


def seed() -> int:
    try:
        return int(os.environ.get("VERIF_SEED", "1"))
    except ValueError:
        return 1


def import_pytrs():
    """Import pytrs fresh from the working tree of REPO and assert that is what we got."""
    if sys.path[0] != REPO:
        sys.path.insert(0, REPO)
    os.environ.setdefault(GUARD, "1")
    import pytrs  # noqa
    here = os.path.realpath(os.path.dirname(pytrs.__file__))
    want = os.path.realpath(os.path.join(REPO, "pytrs"))
    if here != want:
        raise RuntimeError(f"pytrs imported from {here}, expected {want}")
    return pytrs
