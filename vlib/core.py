"""
Harness core: sub-checks, sharded seeded Hypothesis runs, collect-then-shrink,
known-finding matching, replay files, evidence.

A property module (props/cXX.py) exposes

    ID     = "C01"
    RULE   = "... how cases are generated and what makes one non-trivial ..."
    SUBS   = [Sub(...), ...]
    ASSUMPTIONS = [...]

Each Sub owns a strategy (or a finite enumeration) producing JSON-serialisable
*cases*, and an ``oracle(case) -> list[Failure]``.  The oracle never raises for
library misbehaviour: an exception whose traceback passes through the pytrs
package is turned into a Failure here; an exception raised purely by harness
code is a harness error (exit 2), never a VIOLATION.
"""
import hashlib
import json
import multiprocessing as mp
import os
import sys
import time
import traceback
import warnings
import zlib
from collections import Counter

from . import env

EXIT_OK, EXIT_VIOLATION, EXIT_HARNESS = 0, 1, 2


class HarnessError(Exception):
    pass


class Failure(dict):
    """A property violation observed by an oracle.  ``sig`` is the root-cause key."""

    def __init__(self, sig, msg, **detail):
        super().__init__(sig=str(sig), msg=str(msg), detail=_jsonable(detail))

    @property
    def sig(self):
        return self["sig"]


def _jsonable(o, depth=0):
    if depth > 8:
        return repr(o)
    if isinstance(o, (str, int, float, bool)) or o is None:
        return o
    if isinstance(o, dict):
        return {str(k): _jsonable(v, depth + 1) for k, v in o.items()}
    if isinstance(o, (list, tuple, set, frozenset)):
        return [_jsonable(v, depth + 1) for v in o]
    return repr(o)


def canon(case) -> str:
    return json.dumps(case, sort_keys=True, ensure_ascii=False, default=repr)


def case_hash(case) -> str:
    return hashlib.sha1(canon(case).encode("utf-8", "surrogatepass")).hexdigest()[:16]


def _pytrs_frames(tb):
    root = os.path.join(env.REPO, "pytrs") + os.sep
    out = []
    for fs in traceback.extract_tb(tb):
        if os.path.abspath(fs.filename).startswith(root):
            out.append(fs)
    return out


def exception_failure(exc, where=""):
    """Turn an exception into a Failure if it came out of pytrs; else re-raise as harness error."""
    frames = _pytrs_frames(exc.__traceback__)
    if not frames:
        return None
    inner = frames[-1]
    sig = f"exc:{type(exc).__name__}@{inner.name}"
    return Failure(sig, f"{where}: {type(exc).__name__}: {exc}"[:400],
                   frame=f"{os.path.basename(inner.filename)}:{inner.lineno}:{inner.name}")


class Sub:
    """One sub-check of a property."""

    def __init__(self, name, oracle, strategy=None, enumerate=None, n=None, shards=None,
                 nontrivial=None, classes=None, render=None, essential=(), exhaustive=False,
                 budget_s=None, validate=None, text_keys=(), max_shrink=None):
        self.name = name
        self.oracle = oracle
        self.strategy = strategy          # callable(tier) -> hypothesis strategy
        self.enumerate = enumerate        # callable(tier) -> list of cases (finite domain)
        self.n = n or {"quick": 500, "thorough": 5000}          # examples per shard
        self.shards = shards or {"quick": 4, "thorough": 16}
        self.nontrivial = nontrivial or (lambda case: True)
        self.classes = classes or (lambda case: ())
        self.render = render or (lambda case: case)
        self.essential = tuple(essential)  # class labels that must be populated, else exit 2
        self.exhaustive = exhaustive
        self.budget_s = budget_s or {"quick": 100, "thorough": 1500}
        self.validate = validate          # callable(case) -> bool, guards the shrinker
        self.text_keys = tuple(text_keys)  # dict keys whose string values are free text (shrunk char-wise)
        self.max_shrink = max_shrink      # cap on oracle evaluations spent shrinking one failure (None: tier default)


class Recorder:
    MAX_KEEP = 12

    def __init__(self):
        self.evaluations = 0
        self.nontrivial = set()
        self.classes = Counter()
        self.samples = []
        self.next_sample = 12
        self.excluded = Counter()
        self.known_hits = Counter()
        self.failures = {}          # sig -> list of (size, case, failure)
        self.truncated = False
        self.harness_errors = []

    def add_failure(self, f, case):
        lst = self.failures.setdefault(f.sig, [])
        lst.append((len(canon(case)), case, dict(f)))
        lst.sort(key=lambda x: x[0])
        del lst[self.MAX_KEEP:]

    def export(self):
        return {
            "evaluations": self.evaluations, "nontrivial": list(self.nontrivial),
            "classes": dict(self.classes), "samples": self.samples,
            "excluded": dict(self.excluded), "known_hits": dict(self.known_hits),
            "failures": self.failures, "truncated": self.truncated,
            "harness_errors": self.harness_errors,
        }


# exclusion counters that generators may bump while drawing
_EXCLUDED = Counter()


def note_excluded(label, n=1):
    _EXCLUDED[label] += n


def safe_oracle(sub, case):
    """Run the oracle; library exceptions become Failures, harness exceptions propagate."""
    try:
        with warnings.catch_warnings():
            warnings.simplefilter("ignore")
            out = sub.oracle(case)
        return list(out or [])
    except HarnessError:
        raise
    except RecursionError as exc:
        f = exception_failure(exc, sub.name)
        if f is None:
            raise
        return [f]
    except Exception as exc:  # noqa
        f = exception_failure(exc, sub.name)
        if f is None:
            raise
        return [f]


def _observe(sub, rec, case, known_sigs, sample_every):
    rec.evaluations += 1
    # the oracle runs first so that classification may use what it observed (e.g. number of tracts)
    fails = safe_oracle(sub, case)
    try:
        nt = bool(sub.nontrivial(case))
        labels = list(sub.classes(case))
    except Exception as exc:  # classification is harness code
        raise HarnessError(f"classification failed: {exc!r}")
    if nt:
        rec.nontrivial.add(case_hash(case))
    for lb in labels:
        rec.classes[lb] += 1
    # samples for the evidence file: the first case, then non-trivial cases at geometrically spaced positions (the first
    # cases a Hypothesis run draws are its simplest ones and say little about what the bulk looks like)
    if len(rec.samples) < 8 and (rec.evaluations == 1 or (rec.evaluations >= rec.next_sample and (nt or rec.evaluations >= 2 * rec.next_sample))):
        rec.next_sample = max(rec.next_sample * 2, rec.evaluations + 1)
        try:
            rec.samples.append(_jsonable(sub.render(case)))
        except Exception:
            rec.samples.append(_jsonable(case))
    for f in fails:
        if f.sig in known_sigs:
            rec.known_hits[f.sig] += 1
        else:
            # an oracle that drives a whole campaign (e.g. a fuzzer) names the concrete failing input to be replayed
            rec.add_failure(f, f["detail"].pop("replay_case", None) or case)


def run_shard(task):
    """Executed in a forked worker.  task = (module_name, sub_name, tier, seed, shard, nshards, known_sigs)"""
    modname, subname, tier, seed, shard, nshards, known_sigs = task
    t0 = time.time()
    rec = Recorder()
    try:
        import importlib
        mod = importlib.import_module(modname)
        sub = next(s for s in mod.SUBS if s.name == subname)
        deadline = t0 + sub.budget_s[tier]
        _EXCLUDED.clear()
        if sub.enumerate is not None:
            cases = sub.enumerate(tier)
            mine = cases[shard::nshards]
            sample_every = max(1, len(mine) // 6)
            for case in mine:
                if time.time() > deadline:
                    rec.truncated = True
                    break
                _observe(sub, rec, case, known_sigs, sample_every)
        else:
            from hypothesis import given, settings, seed as hseed, Phase, HealthCheck
            n = sub.n[tier]
            sample_every = max(1, n // 6)
            strat = sub.strategy(tier)

            # each sub-check gets its own stream, so sub-checks sharing a strategy do not see the same cases
            @hseed((seed * 1000 + shard) * 1000 + zlib.crc32(subname.encode()) % 1000)
            @settings(max_examples=n, database=None, deadline=None, derandomize=False,
                      phases=[Phase.generate], report_multiple_bugs=False,
                      suppress_health_check=list(HealthCheck))
            @given(strat)
            def t(case):
                if time.time() > deadline:
                    rec.truncated = True
                    return
                _observe(sub, rec, case, known_sigs, sample_every)

            t()
        rec.excluded.update(_EXCLUDED)
    except Exception as exc:  # harness error
        rec.harness_errors.append("".join(traceback.format_exception(type(exc), exc, exc.__traceback__))[-3000:])
    out = rec.export()
    out["sub"] = subname
    out["wall_s"] = time.time() - t0
    return out


# ---------------------------------------------------------------------------
# generic structural shrinker (delta debugging over JSON-like cases)

def _simplify(x, text_keys=(), key=None):
    """Yield structurally smaller variants of a JSON-like value.  Strings are atomic unless their dict key is in text_keys."""
    if isinstance(x, list):
        n = len(x)
        if n > 1:
            half = n // 2
            yield x[:half]
            yield x[half:]
        for i in range(n):
            yield x[:i] + x[i + 1:]
        for i in range(n):
            for v in _simplify(x[i], text_keys, key):
                yield x[:i] + [v] + x[i + 1:]
    elif isinstance(x, dict):
        for k in x:
            for v in _simplify(x[k], text_keys, k):
                y = dict(x)
                y[k] = v
                yield y
    elif isinstance(x, str):
        if key not in text_keys:
            return
        n = len(x)
        if n > 8:
            step = max(1, n // 4)
            for i in range(0, n, step):
                yield x[:i] + x[i + step:]
            for i in range(n):
                yield x[:i] + x[i + 1:]
        elif n > 0:
            for i in range(n):
                yield x[:i] + x[i + 1:]
    elif isinstance(x, bool):
        if x:
            yield False
    elif isinstance(x, int):
        if x > 1:
            yield 1
            yield x // 2
            yield x - 1
        elif x < 0:
            yield -x


def shrink(sub, case, sig, max_evals=300, validate=None):
    """Greedy descent: keep any smaller variant that still fails with the same signature."""
    evals = 0
    best = case

    def still_fails(c):
        nonlocal evals
        evals += 1
        try:
            if validate is not None and not validate(c):
                return False
            return any(f.sig == sig for f in safe_oracle(sub, c))
        except Exception:
            return False  # structurally invalid variant

    improved = True
    while improved and evals < max_evals:
        improved = False
        for cand in _simplify(best, getattr(sub, 'text_keys', ())):
            if evals >= max_evals:
                break
            if len(canon(cand)) >= len(canon(best)):
                continue
            if still_fails(cand):
                best = cand
                improved = True
                break
    return best, evals


# ---------------------------------------------------------------------------
# known findings

class Findings:
    def __init__(self, path=None):
        self.path = path or os.path.join(env.VERIF_ROOT, "KNOWN_FINDINGS.txt")
        self.known = []   # dicts: property, sig, witness, text
        self.fixed = []
        if os.path.exists(self.path):
            for line in open(self.path, encoding="utf-8"):
                line = line.rstrip("\n")
                if line.startswith("known:"):
                    body = line[len("known:"):].strip()
                    parts = body.split(None, 3)
                    d = {}
                    rest = []
                    for p in parts[:3]:
                        if "=" in p:
                            k, v = p.split("=", 1)
                            d[k] = v
                    d["text"] = parts[3] if len(parts) > 3 else ""
                    self.known.append(d)
                elif line.startswith("fixed:"):
                    self.fixed.append(line)

    def for_property(self, pid):
        return [k for k in self.known if k.get("property") == pid]


# ---------------------------------------------------------------------------
# replay files

def replay_dir(pid):
    d = os.path.join(env.VERIF_ROOT, "replays", pid)
    os.makedirs(d, exist_ok=True)
    return d


def write_replay(pid, sub, case, failure, seed, tier):
    d = os.path.join(env.OUT_ROOT, "replays", pid)
    os.makedirs(d, exist_ok=True)
    h = case_hash({"sub": sub.name, "case": case})
    path = os.path.join(d, f"{sub.name}-{h}.json")
    doc = {"property": pid, "sub": sub.name, "case": case, "failure": failure,
           "rendered": _jsonable(_try(lambda: sub.render(case), None)), "seed": seed, "tier": tier}
    with open(path, "w", encoding="utf-8") as fh:
        json.dump(doc, fh, indent=1, ensure_ascii=False, default=repr)
    return os.path.relpath(path, env.OUT_ROOT)


def _try(fn, default):
    try:
        return fn()
    except Exception:
        return default


def replay_file(mod, path):
    doc = json.load(open(path, encoding="utf-8"))
    sub = next((s for s in mod.SUBS if s.name == doc["sub"]), None)
    if sub is None:
        raise HarnessError(f"replay {path}: unknown sub {doc['sub']}")
    return sub, doc["case"], safe_oracle(sub, doc["case"])


# ---------------------------------------------------------------------------
# the runner

def run_property(mod, tier, seed, only_sub=None, jobs=16):
    t0 = time.time()
    pid = mod.ID
    findings = Findings()
    known = findings.for_property(pid)
    known_sigs = {k["sig"] for k in known}
    violations = []     # (sub, case, failure)
    harness_errors = []
    known_lines = []
    if hasattr(mod, "prepare"):
        mod.prepare(tier)           # e.g. reference results from fresh interpreters, computed once before forking

    # --- replay tier: committed regression inputs and known-finding witnesses
    rdir = replay_dir(pid)
    witness_paths = {os.path.normpath(os.path.join(env.VERIF_ROOT, k["witness"])): k for k in known if k.get("witness")}
    replayed = 0
    for fn in sorted(os.listdir(rdir)):
        if not fn.endswith(".json"):
            continue
        path = os.path.normpath(os.path.join(rdir, fn))
        try:
            sub, case, fails = replay_file(mod, path)
        except Exception as exc:
            harness_errors.append(f"replay {fn}: {exc!r}")
            continue
        replayed += 1
        kf = witness_paths.get(path)
        for f in fails:
            if f.sig in known_sigs:
                if kf is not None and f.sig == kf["sig"]:
                    known_lines.append(f"KNOWN-FINDING: property={pid} {kf['text']} [sig={kf['sig']}]")
                continue
            violations.append((sub, case, dict(f), os.path.relpath(path, env.VERIF_ROOT)))
    known_lines = sorted(set(known_lines))

    # --- generated search
    subs = [s for s in mod.SUBS if only_sub in (None, s.name)]
    tasks = []
    for s in subs:
        nsh = s.shards[tier]
        for k in range(nsh):
            tasks.append((mod.__name__, s.name, tier, seed, k, nsh, known_sigs))
    ctx = mp.get_context("fork")
    results = []
    if tasks:
        # every shard stops by itself when its wall budget is used up; a shard that does not come back long after that is stuck
        # inside one call into the library (non-termination), which no oracle can report: the parent gives up on the run instead
        limit = 4 * max(s.budget_s[tier] for s in subs) + 300
        t_start = time.time()
        with ctx.Pool(min(jobs, len(tasks)), maxtasksperchild=1) as pool:
            it = pool.imap_unordered(run_shard, tasks, chunksize=1)
            for _ in range(len(tasks)):
                try:
                    results.append(it.next(timeout=max(1.0, limit - (time.time() - t_start))))
                except mp.TimeoutError:
                    pool.terminate()
                    harness_errors.append(f"{len(tasks) - len(results)} shard(s) did not return within {limit} s: a call into the library does not terminate "
                                          f"(sub-checks still running: {sorted({t[1] for t in tasks} - {r['sub'] for r in results}) or 'shared'})")
                    break

    per_sub = {}
    for r in results:
        agg = per_sub.setdefault(r["sub"], {"evaluations": 0, "nontrivial": set(), "classes": Counter(),
                                             "samples": [], "excluded": Counter(), "known_hits": Counter(),
                                             "failures": {}, "truncated": False, "wall_s": 0.0})
        agg["evaluations"] += r["evaluations"]
        agg["nontrivial"].update(r["nontrivial"])
        agg["classes"].update(r["classes"])
        agg["samples"].append(r["samples"])
        agg["excluded"].update(r["excluded"])
        agg["known_hits"].update(r["known_hits"])
        agg["truncated"] = agg["truncated"] or r["truncated"]
        agg["wall_s"] = max(agg["wall_s"], r["wall_s"])
        for sig, lst in r["failures"].items():
            agg["failures"].setdefault(sig, []).extend(lst)
        for he in r["harness_errors"]:
            harness_errors.append(f"{r['sub']}: {he}")

    # --- shrink unknown failures, write replays
    max_evals = 300 if tier == "quick" else 3000
    for s in subs:
        agg = per_sub.get(s.name)
        if not agg:
            continue
        for sig, lst in sorted(agg["failures"].items()):
            lst.sort(key=lambda x: x[0])
            _, case, f = lst[0]
            try:
                small, _ = shrink(s, case, sig, max_evals=(max_evals if s.max_shrink is None else s.max_shrink), validate=getattr(s, "validate", None))
                fs = [x for x in safe_oracle(s, small) if x.sig == sig]
                if fs:
                    case, f = small, dict(fs[0])
            except Exception:
                pass
            path = write_replay(pid, s, case, f, seed, tier)
            violations.append((s, case, f, path))

    # --- essential classes
    essential_missing = []
    for s in subs:
        agg = per_sub.get(s.name)
        if not agg:
            continue
        for lb in s.essential:
            if agg["classes"].get(lb, 0) == 0 and not agg["truncated"]:
                if s.enumerate is not None:
                    # a finite table that lacks a class it is supposed to contain is a defect of the harness
                    harness_errors.append(f"{s.name}: essential class {lb!r} was never generated")
                else:
                    # a random run may miss a rare class at some seed: recorded (and printed), not an error of the check
                    essential_missing.append(f"{s.name}:{lb}")

    # --- evidence
    total_eval = sum(a["evaluations"] for a in per_sub.values()) + replayed
    all_nt = set()
    for name, a in per_sub.items():
        all_nt.update(f"{name}:{h}" for h in a["nontrivial"])
    samples = []
    per_sub_quota = max(3, 24 // max(1, len(per_sub)))
    for name, a in sorted(per_sub.items()):
        # round-robin over the shards, latest (least minimal) first, distinct only
        seen, picked = set(), []
        lists = [list(reversed(x)) for x in sorted(a["samples"], key=lambda x: json.dumps(x, sort_keys=True, default=repr))]
        # start each shard's list at a different position, so that the picks come from different stages of the runs
        lists = [lst[i % len(lst):] + lst[:i % len(lst)] if lst else lst for i, lst in enumerate(lists)]
        while any(lists) and len(picked) < per_sub_quota:
            for lst in lists:
                if lst and len(picked) < per_sub_quota:
                    smp = lst.pop(0)
                    key = json.dumps(smp, sort_keys=True, default=repr)
                    if key not in seen:
                        seen.add(key)
                        picked.append(smp)
        samples.extend({"sub": name, "case": smp} for smp in picked)
    khits = Counter()
    for a in per_sub.values():
        khits.update(a["known_hits"])
    evidence = {
        "property_id": pid, "tier": tier, "seed": seed, "level": "exploration",
        "coverage": {
            "evaluations": total_eval,
            "distinct_nontrivial": len(all_nt),
            "rule": mod.RULE,
            "samples": samples[:24],
            "replayed_files": replayed,
            "subchecks": {
                name: {"evaluations": a["evaluations"], "distinct_nontrivial": len(a["nontrivial"]),
                       "classes": dict(sorted(a["classes"].items())), "excluded": dict(a["excluded"]),
                       "truncated": a["truncated"], "wall_s": round(a["wall_s"], 2),
                       "exhaustive": bool(next(s for s in subs if s.name == name).exhaustive) and not a["truncated"]}
                for name, a in sorted(per_sub.items())
            },
            "excluded": dict(sum((a["excluded"] for a in per_sub.values()), Counter())),
            "known_findings_hit": dict(khits),
            "essential_classes_not_generated": essential_missing,
            "truncated": any(a["truncated"] for a in per_sub.values()),
            "exhaustive": False,
            "repo": env.REPO,
        },
        "assumptions": list(getattr(mod, "ASSUMPTIONS", [])),
        "wall_s": round(time.time() - t0, 2),
        "violations": len(violations),
    }
    edir = os.path.join(env.OUT_ROOT, "evidence")
    os.makedirs(edir, exist_ok=True)
    if only_sub is None:
        with open(os.path.join(edir, f"{pid}.json"), "w", encoding="utf-8") as fh:
            json.dump(evidence, fh, indent=1, ensure_ascii=False, default=repr)

    # --- report
    for line in known_lines:
        print(line)
    for name, a in sorted(per_sub.items()):
        print(f"[{pid}/{name}] evaluations={a['evaluations']} distinct_nontrivial={len(a['nontrivial'])} "
              f"known_hits={sum(a['known_hits'].values())} truncated={a['truncated']} wall={a['wall_s']:.1f}s")
    for em in essential_missing:
        print(f"NOTE property={pid} class {em!r} that the generator is expected to produce did not occur at this seed")
    if harness_errors:
        for he in harness_errors:
            print(f"HARNESS-ERROR property={pid} {he}", file=sys.stderr)
    if violations:
        seen = set()
        for s, case, f, path in violations:
            if path in seen:
                continue
            seen.add(path)
            print(f"VIOLATION property={pid} replay={path}")
            print(f"  sub={s.name} sig={f['sig']} :: {f['msg'][:300]}")
        return EXIT_VIOLATION
    if harness_errors:
        return EXIT_HARNESS
    print(f"OK property={pid} tier={tier} seed={seed} evaluations={total_eval} "
          f"distinct_nontrivial={len(all_nt)} wall={time.time() - t0:.1f}s")
    return EXIT_OK


def run_replay(mod, path):
    if hasattr(mod, "prepare"):
        mod.prepare("quick")
    sub, case, fails = replay_file(mod, path)
    findings = Findings()
    known_sigs = {k["sig"] for k in findings.for_property(mod.ID)}
    print(f"replay property={mod.ID} sub={sub.name}")
    print("rendered:", json.dumps(_jsonable(_try(lambda: sub.render(case), case)), ensure_ascii=False)[:2000])
    bad = False
    for f in fails:
        tag = "KNOWN-FINDING" if f.sig in known_sigs else "VIOLATION"
        if tag == "VIOLATION":
            bad = True
            print(f"VIOLATION property={mod.ID} replay={path}")
        print(f"  {tag} sig={f.sig} :: {f['msg']}")
        print(f"  detail: {json.dumps(f['detail'], ensure_ascii=False)[:1500]}")
    if not fails:
        print("  holds")
    return EXIT_VIOLATION if bad else EXIT_OK
