"""Aliquot chains: geometry oracle (exact rectangles) and documented spellings."""
import re
from fractions import Fraction as F

from hypothesis import strategies as st

HALVES = ("N", "S", "E", "W")
QUARTERS = ("NE", "NW", "SE", "SW")
COMPONENTS = HALVES + QUARTERS

UNIT = (F(0), F(0), F(1), F(1))   # x0, y0, x1, y1 ; y grows northwards


def apply_component(rect, comp, axes=("x", "y")):
    """Sub-rectangle of rect described by one component; only the listed axes are halved."""
    x0, y0, x1, y1 = rect
    mx, my = (x0 + x1) / 2, (y0 + y1) / 2
    for ch in comp:
        if ch == "N" and "y" in axes:
            y0 = my
        elif ch == "S" and "y" in axes:
            y1 = my
        elif ch == "E" and "x" in axes:
            x0 = mx
        elif ch == "W" and "x" in axes:
            x1 = mx
    return (x0, y0, x1, y1)


def chain_rect(chain, max_depth=None):
    """
    chain is written smallest-first (as in deeds): ['N', 'NE'] = N/2 of the NE/4.
    With max_depth, only the first max_depth halvings met on each axis (walking
    from the largest component) are applied.
    """
    rect = UNIT
    used = {"x": 0, "y": 0}
    for comp in reversed(chain):
        axes = []
        for ax, letters in (("y", "NS"), ("x", "EW")):
            if any(ch in letters for ch in comp):
                if max_depth is None or used[ax] < max_depth:
                    axes.append(ax)
                    used[ax] += 1
        rect = apply_component(rect, comp, axes)
    return rect


PIECE_TOKEN = re.compile(r"(NE|NW|SE|SW)|([NSEW])2")


def piece_tokens(piece):
    """'N2SWNE' -> ['N', 'SW', 'NE'] (smallest first). Returns None if it does not tokenise."""
    out = []
    pos = 0
    while pos < len(piece):
        m = PIECE_TOKEN.match(piece, pos)
        if not m:
            return None
        out.append(m.group(1) or m.group(2))
        pos = m.end()
    return out


def area(rect):
    return (rect[2] - rect[0]) * (rect[3] - rect[1])


def inside(inner, outer):
    return inner[0] >= outer[0] and inner[1] >= outer[1] and inner[2] <= outer[2] and inner[3] <= outer[3]


def overlap(a, b):
    w = min(a[2], b[2]) - max(a[0], b[0])
    h = min(a[3], b[3]) - max(a[1], b[1])
    return w > 0 and h > 0


def canonical_text(chain):
    return "".join(c + ("½" if c in HALVES else "¼") for c in chain)


def frac_free(chain):
    """aliquots_whole form: 'N2NE'."""
    return "".join(c + ("2" if c in HALVES else "") for c in chain)


# ---------------------------------------------------------------------------
# documented spellings (C07).  Each spelling is (text, ends_with_digit_or_glyph)

_DIR_WORD = {"N": "North", "S": "South", "E": "East", "W": "West"}
_Q_WORDS = {
    "NE": ["Northeast", "North East", "North-East", "NorthEast"],
    "NW": ["Northwest", "North West", "North-West", "NorthWest"],
    "SE": ["Southeast", "South East", "South-East", "SouthEast"],
    "SW": ["Southwest", "South West", "South-West", "SouthWest"],
}


def spellings(comp, bare=False):
    """All documented spellings of one component, as (family, text). bare=True adds the bare two-letter quarter (clean_qq only)."""
    out = []
    if bare and comp in QUARTERS:
        out += [("bareq", comp), ("bareq", comp), ("bareq", comp.lower())]
    if comp in HALVES:
        c = comp
        out += [("glyph", f"{c}½"), ("slash", f"{c}/2"), ("bare", f"{c}2"), ("one", f"{c}1/2"),
                ("one_sp", f"{c} 1/2"), ("slash_sp", f"{c} / 2"), ("slash_sp", f"{c} /2"), ("bare_sp", f"{c} 2"), ("bare_sp", f"{c}  2"),
                ("word", f"{_DIR_WORD[c]} Half"), ("word", f"{_DIR_WORD[c]} 1/2"),
                ("word", f"{_DIR_WORD[c]} One Half"), ("word", f"{_DIR_WORD[c]}½"),
                ("dot", f"{c}. 1/2")]
        if c in "NS":
            out.append(("abbr", f"{_DIR_WORD[c][:2]}. 1/2"))
    else:
        q = comp
        out += [("glyph", f"{q}¼"), ("slash", f"{q}/4"), ("bare", f"{q}4"), ("one", f"{q}1/4"),
                ("one_sp", f"{q} 1/4"), ("slash_sp", f"{q} / 4"), ("slash_sp", f"{q} /4"), ("bare_sp", f"{q} 4"), ("bare_sp", f"{q}  4"),
                ("word", f"{q} Quarter"), ("dot", f"{q[0]}.{q[1]}. 1/4")]
        for w in _Q_WORDS[q]:
            out += [("word", f"{w} Quarter"), ("word", f"{w} One Quarter"), ("word", f"{w} 1/4"),
                    ("word", f"{w}¼")]
    return out


CASES = ("asis", "upper", "lower")


def apply_case(text, how):
    if how == "upper":
        return text.upper()
    if how == "lower":
        return text.lower()
    return text


JOINERS = ["", " ", " of ", " of the ", "  ", " of\n", "\n", " OF ", " OF THE ", " Of The ",
           # a chain wrapped onto an indented continuation line, Windows line ends, wide gaps
           "\r\n", " of the\r\n", "\n        ", " of the\n        ", "      ", " " * 14, " of\r\n    "]


import functools


@functools.lru_cache(maxsize=None)
def chain_strategy(min_len=1, max_len=4):
    return st.lists(st.sampled_from(COMPONENTS), min_size=min_len, max_size=max_len)


def spelled_chain_strategy(min_len=1, max_len=4, bare=False, bare_after_half=False):
    """
    Draws {'chain': [...], 'spell': [[family, text], ...], 'joiners': [...], 'case': ...}.
    bare: any quarter may be a bare two-letter quarter (clean_qq); bare_after_half: only the quarters of an unbroken run of
    bare quarters that directly follows a half ('N2NENW', 'N/2 of the NE of the NW').
    """
    @st.composite
    def build(draw):
        chain = draw(chain_strategy(min_len, max_len))
        spell = []
        joiners = []
        for i, comp in enumerate(chain):
            in_run = i > 0 and (chain[i - 1] in HALVES or spell[i - 1][0] == "bareq")
            may_be_bare = bare or (bare_after_half and in_run)
            fam, text = draw(st.sampled_from(spellings(comp, may_be_bare)))
            text = apply_case(text, draw(st.sampled_from(CASES)))
            spell.append([fam, text])
            if i < len(chain) - 1:
                joiners.append(draw(st.sampled_from(JOINERS)))
        fix_joiners(chain, spell, joiners, bare)
        return {"chain": chain, "spell": spell, "joiners": joiners}
    return build()


COMPONENTS_SET = set(HALVES) | set(QUARTERS)


def glue_ok(spell, i):
    """May component i be written directly against component i + 1?"""
    fam, text = spell[i]
    if text[-1] in "24½¼":
        return True
    # a bare quarter may be glued to another bare quarter ('N2NENW') and to a component in the clean glyph form ('N½NES½',
    # 'N2NESW¼'), to nothing else
    nxt = spell[i + 1][1]
    return fam == "bareq" and (spell[i + 1][0] == "bareq" or (len(nxt) in (2, 3) and nxt[-1] in "½¼" and nxt[:-1] in COMPONENTS_SET))


def fix_joiners(chain, spell, joiners, bare):
    for i in range(len(joiners)):
        if joiners[i] == "" and not glue_ok(spell, i):
            joiners[i] = " "
    if not bare:
        # the half in front of a run of bare quarters is recognised at a word boundary only: not glued to the component before it
        for i, (fam, _) in enumerate(spell):
            if fam == "bareq" and i >= 2 and chain[i - 1] in HALVES and joiners[i - 2] == "":
                joiners[i - 2] = " "


def render_spelled(sc):
    out = ""
    for i, (fam, text) in enumerate(sc["spell"]):
        out += text
        if i < len(sc["joiners"]):
            out += sc["joiners"][i]
    return out
