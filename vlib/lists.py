"""Elided lists of section / lot numbers: abstract model, expansion, renderings."""
from hypothesis import strategies as st

SEC_LEAD = ["Sec", "Sec.", "Section", "Sect.", "§", "Secs", "Sections", "Secs.", "Sects."]
SEC_REPEAT = ["Sec", "Sec.", "Section", "Sect.", "§", "Secs", "Sections"]
LOT_LEAD = ["Lot", "Lots", "L", "L.", "Lt", "Lt."]
LOT_REPEAT = ["Lot", "Lots", "L", "L.", "Lt", "Lt."]

THROUGH = ["-", " - ", "–", " — ", " through ", " thru ", " thru. ", " to ", "—"]
CONNECT = [", ", " and ", " & ", ", and ", "; ", ",", " and\n"]


def expand(items):
    out = []
    for it in items:
        if it[0] == "single":
            out.append(it[1])
        else:
            a, b = it[1], it[2]
            step = 1 if b > a else -1
            out.extend(range(a, b + step, step))
    return out


def has_descending(items):
    return any(it[0] == "range" and it[2] < it[1] for it in items)


def list_model(max_num, max_items=6, max_span=12):
    num = st.integers(1, max_num)

    @st.composite
    def item(draw):
        kind = draw(st.sampled_from(["single", "single", "asc", "asc", "desc"]))
        if kind == "single":
            return ["single", draw(num)]
        a = draw(num)
        span = draw(st.integers(1, max_span))
        if kind == "asc":
            b = min(max_num, a + span)
            if b == a:
                a = max(1, a - span)
            return ["range", a, b]
        b = max(1, a - span)
        if b == a:
            a = min(max_num, a + span)
        return ["range", a, b]

    return st.lists(item(), min_size=1, max_size=max_items)


def rendering(kind, n_items):
    """Strategy for how to render a model with n_items items."""
    lead = SEC_LEAD if kind == "sec" else LOT_LEAD
    rep = SEC_REPEAT if kind == "sec" else LOT_REPEAT
    return st.fixed_dictionaries({
        "lead": st.sampled_from(lead),
        "lead_space": st.booleans(),
        "through": st.lists(st.sampled_from(THROUGH), min_size=n_items, max_size=n_items),
        "connect": st.lists(st.sampled_from(CONNECT), min_size=n_items, max_size=n_items),
        "repeat_item": st.lists(st.one_of(st.none(), st.none(), st.sampled_from(rep)), min_size=n_items, max_size=n_items),
        "repeat_thru": st.lists(st.one_of(st.none(), st.none(), st.none(), st.sampled_from(rep)), min_size=n_items, max_size=n_items),
    })


def render(items, r, acres=None):
    """acres: optional {str(item index): '(38.29)'} attached to single-number items."""
    acres = acres or {}
    lead = r["lead"]
    # a keyword needs no space before a digit ('Sec14', 'L1'); both forms are documented
    out = lead + (" " if r["lead_space"] else "")
    for i, it in enumerate(items):
        if i > 0:
            out += r["connect"][i]
            kw = r["repeat_item"][i]
            if kw:
                out += kw + " "
        if it[0] == "single":
            out += str(it[1]) + acres.get(str(i), "")
        else:
            out += str(it[1]) + r["through"][i]
            kw = r["repeat_thru"][i]
            if kw:
                if not out.endswith(" "):
                    out += " "
                out += kw + " "
            out += str(it[2])
    return out


@st.composite
def rendered_list(draw, kind, max_num, max_items=6):
    items = draw(list_model(max_num, max_items))
    r = draw(rendering(kind, len(items)))
    return {"items": items, "r": r}
