"""Elided lists of section / lot numbers: abstract model, expansion, renderings."""
from hypothesis import strategies as st

SEC_LEAD = ["Sec", "Sec.", "Section", "Sect.", "§", "Secs", "Sections", "Secs.", "Sects.", "SECTION", "SECTIONS", "SEC.", "sec", "section"]
SEC_REPEAT = ["Sec", "Sec.", "Section", "Sect.", "§", "Secs", "Sections", "SECTION", "sec."]
LOT_LEAD = ["Lot", "Lots", "L", "L.", "Lt", "Lt.", "LOT", "LOTS", "lots"]
LOT_REPEAT = ["Lot", "Lots", "L", "L.", "Lt", "Lt.", "LOT", "lots"]

THROUGH = ["-", " - ", "–", " — ", " through ", " thru ", " thru. ", " to ", "—", " THROUGH ", " Thru ", " TO ", " THRU. ", " Through ",
           "\n- ", " -\n", "\nthrough ", " through\n", " to\n", "\nto "]
# (a list may wrap onto the next line before or after a connective)
CONNECT = [", ", " and ", " & ", ", and ", "; ", ",", " and\n", " AND ", ", And ", "\nand ", ",\nand ", "\n& ", ";\n", ",\n", " &\n"]


def expand(items):
    out = []
    for it in items:
        if it[0] == "single":
            out.append(it[1])
        else:
            a, b = it[1], it[2]
            step = 1 if b > a else -1
            out.extend(range(a, b + step, step))
    return out


def has_descending(items):
    return any(it[0] == "range" and it[2] < it[1] for it in items)


import functools

MAX_ITEMS = 6


@functools.lru_cache(maxsize=None)
def _item_strategy(max_num, max_span):
    num = st.integers(1, max_num)
    kind = st.sampled_from(["single", "single", "asc", "asc", "desc"])
    span = st.integers(1, max_span)

    def build(t):
        k, a, sp = t
        if k == "single":
            return ["single", a]
        if k == "asc":
            b = min(max_num, a + sp)
            if b == a:
                a = max(1, a - sp)
            return ["range", a, b]
        b = max(1, a - sp)
        if b == a:
            a = min(max_num, a + sp)
        return ["range", a, b]

    return st.tuples(kind, num, span).map(build)


@functools.lru_cache(maxsize=None)
def list_model(max_num, max_items=6, max_span=12):
    return st.lists(_item_strategy(max_num, max_span), min_size=1, max_size=max_items)


@functools.lru_cache(maxsize=None)
def _rendering(kind, n=MAX_ITEMS):
    """Rendering choices for up to n items (sliced to the model's length afterwards)."""
    lead = SEC_LEAD if kind == "sec" else LOT_LEAD
    rep = SEC_REPEAT if kind == "sec" else LOT_REPEAT
    return st.fixed_dictionaries({
        "lead": st.sampled_from(lead),
        "lead_space": st.booleans(),
        "through": st.lists(st.sampled_from(THROUGH), min_size=n, max_size=n),
        "connect": st.lists(st.sampled_from(CONNECT), min_size=n, max_size=n),
        "repeat_item": st.lists(st.sampled_from([None] * (2 * len(rep)) + rep), min_size=n, max_size=n),
        "repeat_thru": st.lists(st.sampled_from([None] * (3 * len(rep)) + rep), min_size=n, max_size=n),
        # single-digit numbers written with a leading zero ('Sec 01', 'Lot 07')
        "zpad": st.lists(st.sampled_from([False] * 7 + [True]), min_size=n, max_size=n),
    })


def _trim(t):
    items, r = t
    n = len(items)
    r = dict(r)
    for k in ("through", "connect", "repeat_item", "repeat_thru", "zpad"):
        r[k] = r[k][:n]
    return {"items": items, "r": r}


@functools.lru_cache(maxsize=None)
def rendered_list(kind, max_num, max_items=6):
    return st.tuples(list_model(max_num, max_items), _rendering(kind, max_items)).map(_trim)


@functools.lru_cache(maxsize=None)
def long_rendered_list(kind, max_num, sizes=(7, 10, 16, 24, 25, 26, 30, 36, 40)):
    """Lists whose number of items is drawn first, so that long lists are as common as short ones."""
    top = max(sizes)
    model = st.sampled_from(sizes).flatmap(lambda n: st.lists(_item_strategy(max_num, 12), min_size=n, max_size=n))
    return st.tuples(model, _rendering(kind, top)).map(_trim)


def _num(n, r, i):
    z = r.get("zpad")
    return str(n).zfill(2) if z and i < len(z) and z[i] else str(n)


def render(items, r, acres=None):
    """acres: optional {str(item index): '(38.29)'} attached to single-number items."""
    acres = acres or {}
    lead = r["lead"]
    # a keyword needs no space before a digit ('Sec14', 'L1'); both forms are documented
    out = lead + (" " if r["lead_space"] else "")
    for i, it in enumerate(items):
        if i > 0:
            out += r["connect"][i]
            kw = r["repeat_item"][i]
            if kw:
                out += kw + " "
        if it[0] == "single":
            out += _num(it[1], r, i) + acres.get(str(i), "")
        else:
            out += _num(it[1], r, i) + r["through"][i]
            kw = r["repeat_thru"][i]
            if kw:
                if not out.endswith(" "):
                    out += " "
                out += kw + " "
            out += _num(it[2], r, i)
    return out


