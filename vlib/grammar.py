"""
Abstract PLSS descriptions and their renderings in the four documented layouts.

A description is a JSON-able dict:

  {"layout": "TRS_desc" | "TR_desc_S" | "desc_STR" | "S_desc_TR",
   "groups": [ {"twp": 154, "ns": "n", "rge": 97, "ew": "w", "tr_sp": "std", "tr_sep": "\n",
                "secs": [ {"lst": {"items": [...], "r": {...}}, "block": "NE/4", "conn": " of ", "sep": ", "} ],
                "tr_join": ", ", "gsep": "\n"} ]}

The expected result is computed from this value alone.
"""
import functools
import re

from hypothesis import strategies as st

from . import lists as L
from . import aliquot as aq
from .core import note_excluded

LAYOUTS = ["TRS_desc", "TR_desc_S", "desc_STR", "S_desc_TR"]

TR_SPELLINGS = {
    "std": "T{t}{N}-R{r}{W}",
    "words": "Township {t} {North}, Range {r} {West}",
    "words_nocomma": "Township {t} {North} Range {r} {West}",
    "abbr": "Twp. {t} {N}., Rge. {r} {W}.",
    "dashed": "T-{t}-{N}-R-{r}-{W}",
    "lower": "t{t}{n}-r{r}{w}",
    "space": "T{t}{N} R{r}{W}",
    "bare": "{t}{N}-{r}{W}",
    "dotted": "T. {t} {N}., R. {r} {W}.",
    "comma": "T{t}{N}, R{r}{W}",
    "twp_rge": "Twp {t}{N}, Rge {r}{W}",
}
# spellings without N/S and E/W (the defaults n / w fill them in): only used where a property asks for them
NODIR_SPELLINGS = {"nodir": "T{t}-R{r}", "nodir_words": "Township {t}, Range {r}", "nodir_abbr": "Twp. {t}, Rge. {r}"}
TR_SPELLINGS_ALL = dict(TR_SPELLINGS, **NODIR_SPELLINGS)
_WORD = {"n": "North", "s": "South", "e": "East", "w": "West"}


def render_twprge(g, spelling=None):
    sp = spelling or g["tr_sp"]
    return TR_SPELLINGS_ALL[sp].format(
        t=g["twp"], r=g["rge"], N=g["ns"].upper(), W=g["ew"].upper(), n=g["ns"], w=g["ew"],
        North=_WORD[g["ns"]], West=_WORD[g["ew"]])


def natural_twprge(g):
    return f"T{g['twp']}{g['ns'].upper()}-R{g['rge']}{g['ew'].upper()}"


def short_twprge(g):
    return f"{g['twp']}{g['ns']}{g['rge']}{g['ew']}"


# ---------------------------------------------------------------------------
# description blocks (open vocabulary, built by construction)

PROSE = [
    "That part lying north of the river",
    "That part of the NE/4 lying east of the county road",
    "Beginning at a point 100 feet west of the corner, thence north 200 feet",
    "A tract of land in the SW/4 described by metes and bounds",
    "less and except the wellbore of the Johnson #1 well",
    "NE/4, less and except the north 10 acres",
    "W/2, limited to depths from the surface to the base of the Dakota formation",
    "Lots 1 - 4, including all accretions thereto",
    "insofar as it covers the NW/4",
    "All that portion lying above the high water line",
    "The east 330 feet of the NW/4NW/4",
    "That portion of the S/2 lying outside the highway right-of-way",
    "a strip of land 50 feet wide along the north boundary",
    "NW/4, subject to an easement for a road",
    "the intersection of the creek and the fence line in the SE/4",
    "That part known as the Wilson cabin",
    "All coal in the main vein",
    "NE/4 and all accretions thereof",
    "the old river basin",
]
WORDS = ["tract", "parcel", "land", "river", "road", "fence", "creek", "boundary", "along", "lying", "being", "portion",
         "acres", "feet", "north", "south", "east", "west", "line", "corner", "thence", "containing", "described",
         "county", "highway", "easterly", "northerly", "bank", "center", "thread", "railroad", "adjacent", "abandoned",
         "cabin", "basin", "margin", "thereof", "aforesaid", "herein"]

_STRIP_END = (" of", " in", " and", " the", " all of", " all in", " said", " within")


def block_ok(block):
    """Harness-side well-formedness predicate for a description block (DESIGN 3.1 / 6.1 / 6.3)."""
    if not block or block != block.strip(",;:-–—\t\n ."):
        return False
    if not block[0].isalpha():
        return False
    low = block.lower()
    if low.endswith(_STRIP_END):
        return False
    first = re.split(r"[\s,;]", low, 1)[0]
    if first in ("and", "to", "thru", "through", "of", "in"):
        return False
    if "§" in block or re.search(r"(section|sect|sec|secion|seciton|secton|sectn|secn)s?[\.:\s\-–—\*]*\d", low):
        return False
    # anything that could be read as a Twp/Rge: <digits> <N|S...> <digits> <E|W...>
    if re.search(r"\d[\.\-–—,\s]*(n|s)[a-z]{0,5}[\.\-–—,;\|_~\s]*(r[a-z]{0,6}[\.\-–—,\s]*)?\d+[\.\-–—,\s]*(e|w)", low):
        return False
    if re.search(r"\bt[a-z]{0,9}[\.\-–—,\s]*\d", low):
        return False
    # principal-meridian look-alikes
    if re.search(r"p\.?\s*m", low) or re.search(r"p+r+[incpal]*\s*m", low):
        return False
    if "  " in block or "\t" in block or "\n\n" in block or "\r" in block:
        return False
    return True


def _chain_text(chain, style):
    if style == "glyph":
        return aq.canonical_text(chain)
    return "".join(c + ("/2" if c in aq.HALVES else "/4") for c in chain)


_STYLE = st.sampled_from(["slash", "glyph"])
_LOTS = L.rendered_list("lot", 40, 3)
_LOT_LEAD = st.sampled_from(["Lot", "Lots"])


def _lots_text(t):
    lst, lead = t
    return L.render(lst["items"], dict(lst["r"], lead=lead, lead_space=True))


_B_ALIQUOT = st.tuples(aq.chain_strategy(1, 3), _STYLE).map(lambda t: _chain_text(*t))
_B_ALIQUOTS = st.tuples(st.lists(aq.chain_strategy(1, 2), min_size=2, max_size=3), st.sampled_from([", ", "; ", " and "])).map(
    lambda t: t[1].join(_chain_text(p, "slash") for p in t[0]))
_B_LOTS = st.tuples(_LOTS, _LOT_LEAD).map(_lots_text)
_B_LOTS_ALIQUOT = st.tuples(_B_LOTS, st.sampled_from([", ", "; ", ",\n"]), aq.chain_strategy(1, 2)).map(
    lambda t: t[0] + t[1] + _chain_text(t[2], "slash"))
_B_ALL = st.sampled_from(["ALL", "All", "ALL"])
_B_PROSE = st.sampled_from(PROSE)
_B_WORDS = st.lists(st.sampled_from(WORDS), min_size=2, max_size=7).map(lambda ws: (" ".join(ws))[0].upper() + (" ".join(ws))[1:])
_B_MULTI = st.tuples(aq.chain_strategy(1, 2), st.sampled_from([",\n", ";\n", ", and\n"]),
                     st.sampled_from(PROSE + ["Lots 1 - 3", "S/2N/2"])).map(lambda t: _chain_text(t[0], "slash") + t[1] + t[2])

_BLOCK = st.one_of(_B_ALIQUOT, _B_ALIQUOT, _B_ALIQUOTS, _B_LOTS, _B_LOTS_ALIQUOT, _B_ALL, _B_PROSE, _B_PROSE, _B_WORDS,
                   _B_MULTI).filter(block_ok)


def block_strategy():
    return _BLOCK


def good_block():
    return _BLOCK


# ---------------------------------------------------------------------------
# descriptions

SEPS = [", ", "; ", "\n", ",\n", "\n\n", ";\n", " "]
TR_SEPS = [" ", "\n", ", ", ": ", ",\n", "; "]
CONN = [" of ", " in ", " of\n", " of ", " in ", " OF ", " Of ", " IN "]
TR_JOIN_SDESC = [", ", " of ", " in ", "\n", "; ", ",\n", " OF ", " IN "]     # S_desc_TR: last block -> Twp/Rge
TR_JOIN_DESCSTR = [", ", "; ", ",\n", " ", "\n"]                # desc_STR: section -> Twp/Rge (DESIGN 6.2)


_NUM = st.one_of(st.integers(1, 999), st.sampled_from([1, 2, 3, 9, 10, 11, 99, 100, 101, 111, 154]))
_SECLIST = L.rendered_list("sec", 36, 3)
# how the colon is written after a section list in the section-first layouts
COLONS = [": ", ": ", ": ", " : ", ":\n", ":", " :"]
_SEC = st.fixed_dictionaries({"lst": _SECLIST, "block": _BLOCK, "conn": st.sampled_from(CONN), "sep": st.sampled_from(SEPS),
                              "colon": st.sampled_from(COLONS)})


@functools.lru_cache(maxsize=None)
def _group(max_secs, spellings):
    return st.fixed_dictionaries({
        "twp": _NUM, "ns": st.sampled_from("ns"), "rge": _NUM, "ew": st.sampled_from("ew"),
        "tr_sp": st.sampled_from(list(spellings)), "tr_sep": st.sampled_from(TR_SEPS), "gsep": st.sampled_from(SEPS[:-1]),
        "secs": st.lists(_SEC, min_size=1, max_size=max_secs),
        "tr_join_s": st.sampled_from(TR_JOIN_SDESC), "tr_join_d": st.sampled_from(TR_JOIN_DESCSTR),
        # a later group may name the same Twp/Rge as an earlier one again (A, B, A)
        "same_as": st.sampled_from([None, None, None, None, 0, 0, 1]),
    })


def _fix(layout):
    def fix(groups):
        out = []
        for gi, g in enumerate(groups):
            g = dict(g)
            same = g.pop("same_as", None)
            if same is not None and same < gi:
                for k in ("twp", "ns", "rge", "ew"):
                    g[k] = out[same][k]
            if g["tr_sp"] in NODIR_SPELLINGS:
                g["ns"], g["ew"] = "n", "w"          # what the default directions make of it
            # a bare Twp/Rge ('154N-97W') needs an explicit 'R' for range 2, and cannot directly follow a section
            # list (its leading number would grammatically continue that list): DESIGN 3.1
            follows_sec = layout == "desc_STR" or (layout == "TR_desc_S" and gi > 0)
            if g["tr_sp"] == "bare" and (g["rge"] == 2 or follows_sec):
                note_excluded("bare_twprge_after_section_or_range2")
                g["tr_sp"] = "std"
            js, jd = g.pop("tr_join_s"), g.pop("tr_join_d")
            if layout == "S_desc_TR":
                g["tr_join"] = js
            else:
                g["tr_join"] = jd
            out.append(g)
        return {"layout": layout, "groups": out}
    return fix


@functools.lru_cache(maxsize=None)
def description(layout=None, max_groups=3, max_secs=3, spellings=None):
    spellings = tuple(spellings or TR_SPELLINGS)
    if layout is None:
        return st.one_of(*[description(lay, max_groups, max_secs, spellings) for lay in LAYOUTS])
    return st.lists(_group(max_secs, spellings), min_size=1, max_size=max_groups).map(_fix(layout))


def render_sec(s):
    return L.render(s["lst"]["items"], s["lst"]["r"])


def render(d, colon=None):
    """colon: what joins a section list to its block in the section-first layouts (': ' or, colon-less, ' ')."""
    lay = d["layout"]
    out = ""
    for gi, g in enumerate(d["groups"]):
        if gi:
            out += d["groups"][gi - 1]["gsep"]
        tr = render_twprge(g)
        if lay == "TRS_desc":
            out += tr + g["tr_sep"]
            for si, s in enumerate(g["secs"]):
                if si:
                    out += g["secs"][si - 1]["sep"]
                out += render_sec(s) + (colon if colon is not None else s.get("colon", ": ")) + s["block"]
        elif lay == "TR_desc_S":
            out += tr + g["tr_sep"]
            for si, s in enumerate(g["secs"]):
                if si:
                    out += g["secs"][si - 1]["sep"]
                out += s["block"] + s["conn"] + render_sec(s)
        elif lay == "desc_STR":
            for si, s in enumerate(g["secs"]):
                if si:
                    out += g["secs"][si - 1]["sep"]
                out += s["block"] + s["conn"] + render_sec(s)
            out += g["tr_join"] + tr
        elif lay == "S_desc_TR":
            for si, s in enumerate(g["secs"]):
                if si:
                    out += g["secs"][si - 1]["sep"]
                out += render_sec(s) + (colon if colon is not None else s.get("colon", ": ")) + s["block"]
            out += g["tr_join"] + tr
        else:
            raise ValueError(lay)
    return out


def expected_tracts(d):
    """[(trs, desc)] in reading order, from the abstract value alone."""
    out = []
    for g in d["groups"]:
        for s in g["secs"]:
            for n in L.expand(s["lst"]["items"]):
                out.append((f"{short_twprge(g)}{n:02d}", s["block"]))
    return out


def validate(d):
    if d.get("layout") not in LAYOUTS or not d.get("groups"):
        return False
    for gi, g in enumerate(d["groups"]):
        if not (1 <= g["twp"] <= 999 and 1 <= g["rge"] <= 999) or not g["secs"]:
            return False
        follows_sec = d["layout"] == "desc_STR" or (d["layout"] == "TR_desc_S" and gi > 0)
        if g["tr_sp"] == "bare" and (g["rge"] == 2 or follows_sec):
            return False
        if g["tr_sp"] in NODIR_SPELLINGS and (g["ns"], g["ew"]) != ("n", "w"):
            return False
        for s in g["secs"]:
            if not block_ok(s["block"]) or not s["lst"]["items"]:
                return False
            for it in s["lst"]["items"]:
                if it[0] == "single":
                    if not 1 <= it[1] <= 99:
                        return False
                elif not (1 <= it[1] <= 99 and 1 <= it[2] <= 99 and it[1] != it[2]):
                    return False
    return True
