"""Configuration model: the 16 settings, valid value strategies, renderers."""
import functools

from hypothesis import strategies as st

BOOLS = ["wait_to_parse", "parse_qq", "clean_qq", "sec_colon_required", "sec_colon_cautious", "suppress_lot_divs",
         "ocr_scrub", "segment", "break_halves", "sec_within"]
INTS = ["qq_depth", "qq_depth_min", "qq_depth_max"]
LAYOUTS = ["TRS_desc", "desc_STR", "S_desc_TR", "TR_desc_S", "copy_all"]
ALL = ["default_ns", "default_ew", "layout"] + BOOLS + INTS
TRACT_SETTINGS = ["default_ns", "default_ew", "parse_qq", "clean_qq", "suppress_lot_divs", "ocr_scrub", "qq_depth",
                  "qq_depth_min", "qq_depth_max", "break_halves"]


def _depths_ok(c):
    mn, mx = c.get("qq_depth_min"), c.get("qq_depth_max")
    eff_min = mn if mn is not None else 2
    return mx is None or mx >= eff_min


@functools.lru_cache(maxsize=None)
def config_values(exclude=(), max_depth=4, bool_weight=3):
    """Strategy for {setting: value} with unset settings omitted."""
    unset = [None] * bool_weight
    d = {}
    for b in BOOLS:
        if b not in exclude:
            d[b] = st.sampled_from(unset + [True, False])
    if "default_ns" not in exclude:
        d["default_ns"] = st.sampled_from([None, None, "n", "s"])
    if "default_ew" not in exclude:
        d["default_ew"] = st.sampled_from([None, None, "e", "w"])
    if "layout" not in exclude:
        d["layout"] = st.sampled_from([None] * 5 + LAYOUTS)
    for i in INTS:
        if i not in exclude:
            d[i] = st.sampled_from([None, None, None] + list(range(1, max_depth + 1)))
    return st.fixed_dictionaries(d).map(lambda c: {k: v for k, v in c.items() if v is not None}).filter(_depths_ok)


STYLE = st.fixed_dictionaries({
    # "spaces optional": a configuration typed over several lines, with tabs, or read from a file with its line end still attached
    "sep": st.sampled_from([",", ";", ", ", " ; ", ",  ", ",\n", ",\t", ";\r\n"]),
    "tail": st.sampled_from(["", "", "", "\n", " ", "\r\n", ","]),
    "eq": st.sampled_from([".", "=", "."]),
    "explicit_true": st.booleans(),
    "long_dir": st.booleans(),
    "long_layout": st.booleans(),
    "order": st.integers(0, 1000),
})
PLAIN_STYLE = {"sep": ",", "tail": "", "eq": ".", "explicit_true": False, "long_dir": False, "long_layout": False, "order": 0}


def to_text(cfg, style=None):
    style = style or PLAIN_STYLE
    parts = []
    keys = [k for k in ALL if k in cfg]
    if style["order"] and keys:
        k = style["order"] % len(keys)
        keys = keys[k:] + keys[:k]
    eq = style["eq"]
    for k in keys:
        v = cfg[k]
        if k in BOOLS:
            if v is True:
                parts.append(f"{k}{eq}True" if style["explicit_true"] else k)
            else:
                parts.append(f"{k}{eq}False")
        elif k in ("default_ns", "default_ew"):
            parts.append(f"{k}{eq}{v}" if style["long_dir"] else v)
        elif k == "layout":
            parts.append(f"layout{eq}{v}" if style["long_layout"] else v)
        else:
            parts.append(f"{k}{eq}{v}")
    return style["sep"].join(parts) + (style.get("tail", "") if parts else "")


def to_kwargs(cfg, allowed):
    return {k: v for k, v in cfg.items() if k in allowed}
