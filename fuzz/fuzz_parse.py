#!/venv/bin/python
"""
Coverage-guided fuzz target (atheris / libFuzzer) for the string x configuration properties C03, C09, C10, C11.

The byte string is decoded with FuzzedDataProvider into (entry point, a set of settings, a sequence of tokens of the PLSS
vocabulary with spacing, or raw text) - i.e. the token-soup grammar of vlib/soup.py - so the fuzzer reaches parsing logic
instead of dying in input validation.  The semantic oracles of the four properties run inside the target.  Process-wide
state (MasterConfig, TRS cache) is reset at the top of every iteration.

  fuzz/fuzz_parse.py <corpus dir> -runs=N -seed=S [-fork=16]      (run through ./check C03 --tier thorough, see props/c03.py)
A failing input is written to the artifact dir by libFuzzer; fuzz/replay_fuzz.py decodes and replays it without atheris.
"""
import os
import sys

HERE = os.path.dirname(os.path.dirname(os.path.abspath(__file__)))
sys.path.insert(0, HERE)
sys.path.insert(0, os.path.join(HERE, ".deps"))
sys.dont_write_bytecode = True

import atheris  # noqa: E402

from vlib import env  # noqa: E402

with atheris.instrument_imports(include=["pytrs"]):
    pytrs = env.import_pytrs()

from vlib import soup, configs  # noqa: E402
from vlib.core import safe_oracle  # noqa: E402
from props import c03, c09, c10, c11  # noqa: E402

from vlib.fuzzdecode import decode  # noqa: E402

ORACLES = [(c03, "plssdesc"), (c09, "tracts"), (c10, "typing"), (c11, "no_double")]
_WANT = [x for x in os.environ.get("FUZZ_PROPS", "C03,C09,C10,C11").split(",") if x]
SUBS = [(m.ID, next(s for s in m.SUBS if s.name == n)) for m, n in ORACLES if m.ID in _WANT]


def check(case):
    """Run the four oracles; return list of (property id, failure)."""
    out = []
    for pid, sub in SUBS:
        for f in safe_oracle(sub, case):
            out.append((pid, f))
    return out


def TestOneInput(data):
    pytrs.MasterConfig.default_ns, pytrs.MasterConfig.default_ew = "n", "w"
    pytrs.TRS._clear_cache()
    case = decode(data)
    if soup.looks_slow(case["text"]["text"]):
        return
    fails = check(case)
    if fails:
        pid, f = fails[0]
        raise AssertionError(f"property={pid} sig={f['sig']} :: {f['msg'][:300]}")


if __name__ == "__main__":
    atheris.Setup(sys.argv, TestOneInput)
    atheris.Fuzz()
