#!/usr/bin/env python3
"""tools/mkmutant.py <name> <relpath> <old> <new> [<relpath2> <old2> <new2> ...]  -> mutants/<name>.patch (unified diff against /repo)"""
import difflib, sys, os
HERE = os.path.dirname(os.path.dirname(os.path.abspath(__file__)))
name = sys.argv[1]
args = sys.argv[2:]
out = []
for i in range(0, len(args), 3):
    rel, old, new = args[i:i+3]
    old = old.encode().decode('unicode_escape') if '\\n' in old else old
    new = new.encode().decode('unicode_escape') if '\\n' in new else new
    src = open(os.path.join('/repo', rel), encoding='utf-8').read()
    if src.count(old) != 1:
        sys.exit(f"{rel}: pattern occurs {src.count(old)} times: {old!r}")
    dst = src.replace(old, new)
    out += list(difflib.unified_diff(src.splitlines(True), dst.splitlines(True), 'a/' + rel, 'b/' + rel))
target = sys.argv[0]
path = os.path.join(HERE, os.environ.get('MUTDIR', 'mutants'), name + '.patch')
open(path, 'w', encoding='utf-8').write(''.join(out))
print(path)
