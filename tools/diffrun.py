#!/venv/bin/python
"""
tools/diffrun.py <out.jsonl> [n]     (VERIF_REPO selects the tree)
Differential corpus run: evaluate a fixed, seeded corpus of generated texts and dump the observable results, so that two
trees (e.g. before / after a regex change) can be compared with `diff`.  Texts that take long are skipped via the
isolated timing worker only in the tree where they are slow; the record then says "SLOW".
"""
import json, os, sys, signal
sys.path.insert(0, os.path.dirname(os.path.dirname(os.path.abspath(__file__))))
from vlib import env
pytrs = env.import_pytrs()
from hypothesis import given, settings, seed, Phase, HealthCheck, strategies as st
from vlib import grammar as G, lists as L, soup
from props import c05, c06, c16, c08, c07
from vlib import aliquot as aq
from pytrs import PLSSDesc, Tract, find_sec, find_twprge

out = open(sys.argv[1], "w")
N = int(sys.argv[2]) if len(sys.argv) > 2 else 3000


class Timeout(Exception):
    pass


def handler(signum, frame):
    raise Timeout()


signal.signal(signal.SIGALRM, handler)


def observe(text):
    signal.alarm(3)
    try:
        d = PLSSDesc(text, parse_qq=True)
        r = {"pp": d.pp_desc, "layout": d.current_layout, "flags": list(map(str, d.flags)),
             "tracts": [[t.trs, t.desc, t.lots, t.qqs, list(map(str, t.flags)), t.lot_acres] for t in d.tracts],
             "find_sec": find_sec(text), "find_twprge": find_twprge(text, preprocess=True)}
        t = Tract(text, parse_qq=True)
        r["tract"] = [t.pp_desc, t.lots, t.qqs, t.lot_acres, list(map(str, t.flags))]
    except Timeout:
        r = "SLOW"
    except Exception as exc:
        r = {"EXC": f"{type(exc).__name__}: {exc}"}
    finally:
        signal.alarm(0)
    return r


def run(strategy, name, n):
    @seed(12345)
    @settings(max_examples=n, database=None, deadline=None, phases=[Phase.generate], suppress_health_check=list(HealthCheck))
    @given(strategy)
    def t(text):
        out.write(json.dumps({"gen": name, "text": text, "r": observe(text)}, ensure_ascii=False, sort_keys=True) + "\n")
    t()


ONLY = os.environ.get("DIFF_ONLY", "").split(",") if os.environ.get("DIFF_ONLY") else None
_run = run


def run(strategy, name, n):
    if ONLY is None or name in ONLY:
        _run(strategy, name, n)


run(c07.case().map(lambda c: aq.render_spelled(c["sc"])), "c07", N * 2)
run(st.tuples(c07.case(), c07.case(), st.sampled_from([", ", " ", "\n", " and ", "   ", " of the ", "; "])).map(
    lambda t: aq.render_spelled(t[0]["sc"]) + t[2] + aq.render_spelled(t[1]["sc"])), "c07_pairs", N * 2)
run(G.description(None).map(G.render), "c01", N)
run(G.description(None).map(lambda d: G.render(d, colon=" ")), "c01_nocolon", N // 2)
run(c05.sec_case().map(lambda c: c05.LAYOUTS[c["layout"]].format(lst=L.render(c["lst"]["items"], c["lst"]["r"]))), "c05_sec", N)
run(c05.lot_case().map(lambda c: "T154N-R97W Sec 14: " + L.render(c["lst"]["items"], c["lst"]["r"])), "c05_lot", N)
run(c06.case().map(lambda c: "T154N-R97W Sec 14: " + c06.full_text(c)), "c06", N)
run(c08.case().map(c08.text_of), "c08", N)
run(soup.ANY_TEXT.map(lambda t: t["text"]), "soup", N * 2)
run(c16.PAIR_CASE.map(c16.text_of), "pump_pairs", N)
run(c16.REP_CASE.map(c16.text_of), "rep", N // 3)
for c in (c16.enum_pump("quick") if (ONLY is None or "pump_atoms" in ONLY) else []):
    text = c16.text_of(c)
    out.write(json.dumps({"gen": "pump_atoms", "text": text, "r": observe(text)}, ensure_ascii=False, sort_keys=True) + "\n")
# with a P.M. designation near a Twp/Rge
PM = ["5th P.M.", "Fifth Principal Meridian", "of the 5th PM", "P. M.", ", 6th P.M.,", "Montana Principal Meridian", "MPM"]
run(st.tuples(G.description("TRS_desc", 2, 2), st.sampled_from(PM), st.sampled_from([" ", ", ", " of the ", "\n", "   ", " - "])).map(
    lambda t: G.render(t[0]).replace(G.render_twprge(t[0]["groups"][0]), G.render_twprge(t[0]["groups"][0]) + t[2] + t[1], 1)), "pm", N)
out.close()
print("done", sys.argv[1])
