#!/venv/bin/python
"""
tools/intake_seeded.py <deliverable dir> [<name>]

Independent confirmation of a seeded change produced by a sub-agent, in a fresh scratch worktree of /repo (under /tmp,
removed afterwards):
  (a) demo.py passes on the clean tree;
  (b) patch.diff applies to HEAD; the repository's tests still pass; demo.py fails;
then the change is kept as /verif/seeded/<name>/{patch.diff, demo.py, meta.json} with what was run recorded in meta.json.
Nothing is ever applied to /repo itself.
"""
import json
import os
import shutil
import subprocess
import sys
import tempfile

HERE = os.path.dirname(os.path.dirname(os.path.abspath(__file__)))


def run(cmd, cwd, env=None, timeout=900):
    p = subprocess.run(cmd, cwd=cwd, env=env, capture_output=True, text=True, timeout=timeout)
    return p.returncode, (p.stdout + p.stderr)[-1500:]


def main():
    src = os.path.abspath(sys.argv[1])
    name = sys.argv[2] if len(sys.argv) > 2 else os.path.basename(src.rstrip("/"))
    for f in ("patch.diff", "demo.py", "meta.json"):
        if not os.path.exists(os.path.join(src, f)):
            print(f"{name}: missing {f}")
            return 1
    meta = json.load(open(os.path.join(src, "meta.json")))
    wt = tempfile.mkdtemp(prefix="vintake-", dir="/tmp")
    os.rmdir(wt)
    subprocess.run(["git", "-C", "/repo", "worktree", "add", "-q", "--detach", wt, "HEAD"], check=True)
    try:
        env = dict(os.environ, PYTHONPATH=wt, PYTHONDONTWRITEBYTECODE="1")
        env.pop("JAMESPIMES_PYTRS_VERIF", None)
        shutil.copy(os.path.join(src, "demo.py"), os.path.join(wt, "_demo.py"))
        rc_clean, out_clean = run(["/venv/bin/python", "-B", "_demo.py"], wt, env, timeout=300)
        rc_apply, out_apply = run(["git", "apply", os.path.join(src, "patch.diff")], wt)
        if rc_apply != 0:
            print(f"{name}: patch does not apply: {out_apply[-300:]}")
            return 1
        rc_tests, out_tests = run(["/venv/bin/python", "-m", "pytest", "-q", "-p", "no:cacheprovider"], wt, env)
        rc_demo, out_demo = run(["/venv/bin/python", "-B", "_demo.py"], wt, env, timeout=300)
        ok = rc_clean == 0 and rc_tests == 0 and rc_demo != 0
        print(f"{name}: demo_clean_rc={rc_clean} tests_rc={rc_tests} ({out_tests.strip().splitlines()[-1] if out_tests.strip() else ''}) demo_patched_rc={rc_demo} -> {'VALID' if ok else 'REJECTED'}")
        if not ok:
            if rc_clean != 0:
                print("   demo on clean tree:", out_clean[-300:])
            return 1
        dst = os.path.join(HERE, "seeded", name)
        os.makedirs(dst, exist_ok=True)
        for f in ("patch.diff", "demo.py"):
            shutil.copy(os.path.join(src, f), os.path.join(dst, f))
        head = subprocess.run(["git", "-C", "/repo", "log", "--format=%h", "-1"], capture_output=True, text=True).stdout.strip()
        meta.setdefault("property", name.split("-")[0])
        meta["checks"] = meta.get("checks") or [meta["property"]]
        meta["confirmed"] = {
            "repo_head": head,
            "ran": ["python demo.py on clean worktree -> exit 0", "git apply patch.diff", "pytest -q (244 tests) -> pass",
                    f"python demo.py with patch -> exit {rc_demo}"],
            "demo_failure_tail": out_demo[-400:],
        }
        json.dump(meta, open(os.path.join(dst, "meta.json"), "w"), indent=1)
        return 0
    finally:
        subprocess.run(["git", "-C", "/repo", "worktree", "remove", "--force", wt])


if __name__ == "__main__":
    sys.exit(main())
