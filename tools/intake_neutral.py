#!/venv/bin/python
"""
tools/intake_neutral.py <deliverable dir> [<name>]

Confirms a property-preserving ("neutral") change produced by a sub-agent in a fresh scratch worktree of /repo (under /tmp,
removed afterwards): patch.diff applies to HEAD and the repository's tests still pass.  Kept as /verif/neutral/<name>/
{patch.diff, meta.json}.  Whether the property really still holds is argued in meta.json and judged by hand when a check
raises an alarm on it (see DESIGN section 8, false-alarm probe).
"""
import json
import os
import shutil
import subprocess
import sys
import tempfile

HERE = os.path.dirname(os.path.dirname(os.path.abspath(__file__)))


def main():
    src = os.path.abspath(sys.argv[1])
    name = sys.argv[2] if len(sys.argv) > 2 else os.path.basename(src.rstrip("/"))
    for f in ("patch.diff", "meta.json"):
        if not os.path.exists(os.path.join(src, f)):
            print(f"{name}: missing {f}")
            return 1
    meta = json.load(open(os.path.join(src, "meta.json")))
    wt = tempfile.mkdtemp(prefix="vintake-", dir="/tmp")
    os.rmdir(wt)
    subprocess.run(["git", "-C", "/repo", "worktree", "add", "-q", "--detach", wt, "HEAD"], check=True)
    try:
        env = dict(os.environ, PYTHONPATH=wt, PYTHONDONTWRITEBYTECODE="1")
        p = subprocess.run(["git", "apply", os.path.join(src, "patch.diff")], cwd=wt, capture_output=True, text=True)
        if p.returncode != 0:
            print(f"{name}: patch does not apply: {p.stderr[-300:]}")
            return 1
        t = subprocess.run(["/venv/bin/python", "-m", "pytest", "-q", "-p", "no:cacheprovider"], cwd=wt, env=env, capture_output=True, text=True)
        tail = (t.stdout.strip().splitlines() or [""])[-1]
        ok = t.returncode == 0
        print(f"{name}: tests_rc={t.returncode} ({tail}) -> {'KEPT' if ok else 'REJECTED'}")
        if not ok:
            return 1
        dst = os.path.join(HERE, "neutral", name)
        os.makedirs(dst, exist_ok=True)
        shutil.copy(os.path.join(src, "patch.diff"), os.path.join(dst, "patch.diff"))
        meta.setdefault("property", name.split("-")[0])
        meta["confirmed"] = {"repo_head": subprocess.run(["git", "-C", "/repo", "log", "--format=%h", "-1"], capture_output=True, text=True).stdout.strip(),
                             "ran": ["git apply patch.diff", "pytest -q (244 tests) -> pass"]}
        json.dump(meta, open(os.path.join(dst, "meta.json"), "w"), indent=1)
        return 0
    finally:
        subprocess.run(["git", "-C", "/repo", "worktree", "remove", "--force", wt])


if __name__ == "__main__":
    sys.exit(main())
