#!/opt/veriftools/pyvenv/bin/python
import json, sys, glob
import jsonschema
m = json.load(open('/verif/MANIFEST.json'))
jsonschema.validate(m, json.load(open('/root/.vp/MANIFEST.schema.json')))
print('manifest ok')
es = json.load(open('/root/.vp/EVIDENCE.schema.json'))
for f in sorted(glob.glob('/verif/evidence/*.json')):
    try:
        jsonschema.validate(json.load(open(f)), es); print('ok', f)
    except Exception as e:
        print('BAD', f, str(e)[:300])
