#!/bin/sh
# tools/showreplays.sh <dir>   print sig + message of each replay json
for f in "$1"/*.json; do /venv/bin/python -c "
import json,sys; d=json.load(open('$f')); print(d['sub'], d['failure']['sig'],'|',d['failure']['msg'][:500])"; done
