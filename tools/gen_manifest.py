#!/venv/bin/python
"""Regenerate MANIFEST.json from the table below (kept next to the checks so it stays valid)."""
import json
import os
import subprocess

HERE = os.path.dirname(os.path.dirname(os.path.abspath(__file__)))

# id -> (technique, level text, level note, design ref)
CHECKS = {
    "C12": (
        "exhaustive enumeration + seeded Hypothesis generation against a reference grammar",
        "Generated-input search: all one-dimensional component sweeps, all encoding combinations and all single-character "
        "edits of a pool of valid strings are enumerated; random component/encoding/default combinations and double edits "
        "are sampled. Oracle = harness-side canonical form and reference grammar; no library code on the expected side.",
        "Trusts the harness grammar G; upper-case variants and zero-padded numbers with a direction letter are outside the generated domain.",
        "DESIGN.md section 4 C12",
    ),
    "C02": (
        "exhaustive enumeration of chains x depth configurations + Hypothesis for long chains, exact rectangle-geometry oracle",
        "Every aliquot chain up to length 4 (quick) / 5 (thorough) x all 30 depth configurations is enumerated and the returned pieces "
        "are checked against exact Fraction rectangles computed from the original chain: containment, pairwise disjointness, area sum, "
        "minimum depth, maximum depth, break_halves. Longer chains are sampled.",
        "Trusts the harness geometry model (per-axis truncation for qq_depth_max); spelling variation is C07's job.",
        "DESIGN.md section 4 C02",
    ),
    "C05": (
        "seeded Hypothesis generation of list models x renderings against a model expansion",
        "Abstract list models (single / ascending / descending items) are rendered in every documented keyword, through and connective "
        "spelling and the library's expansion (find_sec, PLSSDesc in all four layouts, Tract lots / ilots, non-sequential warnings) is "
        "compared with the expansion computed from the model.",
        "Trusts the harness list model; repeated keywords are limited to documented forms; degenerate ranges a-a are not generated.",
        "DESIGN.md section 4 C05",
    ),
    "C06": (
        "seeded Hypothesis generation of element sequences; differential (whole vs parts) + independent lot/acreage/duplicate model",
        "Sequences of lot lists, lot divisions, acreages, aliquot chains and ALL are rendered with all separators and parsed whole and "
        "element-by-element under the same settings; the whole must equal the concatenation, and an independent model decides lots, "
        "divisions, ilots, acreages, lots_qqs and the duplicate warnings.",
        "A bare line break after an aliquot chain and ALL followed by another element are outside the generated domain (DESIGN 6.4).",
        "DESIGN.md section 4 C06",
    ),
    "C07": (
        "seeded Hypothesis generation of per-component spellings and joiners; canonical-form and fixed-point oracle; exhaustive bare-quarter table",
        "Every component of a chain gets an independently drawn documented spelling, case and joiner; pp_desc / preprocess() must equal the "
        "harness-built canonical text, results must equal those of the canonical text under the same configuration, and normalising "
        "again must change nothing. The bare two-letter quarter contexts are enumerated exhaustively.",
        "No-space joins are generated only after 2, 4, ½, ¼ (DESIGN 6.5).",
        "DESIGN.md section 4 C07",
    ),
    "C01": (
        "seeded Hypothesis generation of abstract descriptions rendered in all four layouts; model oracle + pretty_desc round trip",
        "An abstract description (Twp/Rge groups x section lists x blocks) is rendered with independently drawn spellings, connectors and "
        "separators in each documented layout; tracts (trs, desc) must equal the list computed from the abstract value, the layout must be "
        "deduced, no error flag raised, and the library's pretty_desc rendering must parse back to the same tracts.",
        "Blocks satisfy a harness-side well-formedness predicate; domain decisions DESIGN 6.1-6.3 (counted exclusions).",
        "DESIGN.md section 4 C01",
    ),
    "C03": (
        "seeded Hypothesis generation over strings x configurations x entry points; exception bucketing by (type, innermost pytrs frame)",
        "Token soup, arbitrary unicode text, damaged and well-formed descriptions crossed with all parse-relevant settings (rendered as config "
        "text in varying syntax) and every public entry point; any exception or an empty tract list is a failure, keyed by root cause so that "
        "several causes are enumerated in one run. Invalid arguments must raise exactly the documented exception classes.",
        "Depth settings within 1..4; the C16 slow input families are steered away from (counted).",
        "DESIGN.md section 4 C03",
    ),
    "C09": (
        "seeded Hypothesis generation over the C03 space; invariant over every tract against a harness grammar and decomposition",
        "Every tract of every generated parse must have a Twp/Rge/Sec string in the harness grammar (standard or error placeholders, never "
        "undefined), attributes equal to the independent decomposition of that string, the complete original text, the parent's source tag "
        "and its zero-based creation index.",
        "Trusts the harness grammar for the standard form.",
        "DESIGN.md section 4 C09",
    ),
    "C10": (
        "seeded Hypothesis generation over the C03 space (typing / sharing invariants) + planted trigger phrases in generated descriptions",
        "Flag lists of the description and of every tract are checked for type, one-to-one pairing with (flag, context) tuples, sharing with "
        "tracts, desc_is_flawed and the error-TRS implication on every generated parse; trigger wording of each flag kind is planted into "
        "generated descriptions and the flag plus its context are required.",
        "At most one trigger phrase per flag kind per description (DESIGN 6.9).",
        "DESIGN.md section 4 C10",
    ),
    "C11": (
        "seeded Hypothesis generation: copy_all requested through every channel, constructed fallback texts, and a global no-double-whole-text invariant",
        "copy_all requested by init keyword, config text (two syntaxes), Config object, config assignment and parse(layout=) must give exactly "
        "one tract holding the whole preprocessed text; texts built to leave no other option must fall back to one tract with the whole text "
        "and an error flag unless Twp/Rge and section are both numeric; no parse may return two tracts that both carry the complete text.",
        "For deduced layouts the fallback description is compared modulo the leading/trailing punctuation and connective words every description is cleaned of.",
        "DESIGN.md section 4 C11",
    ),
    "C08": (
        "seeded Hypothesis generation of Twp/Rge spellings x missing directions x default channels x OCR look-alikes; model oracle",
        "1..3 Twp/Rges with colliding numbers are written in every documented spelling, with N/S and/or E/W left out, under defaults supplied "
        "through config text, parse() keyword, MasterConfig or not at all; the preprocessed text, find_twprge, the tracts and the fixed_twprge "
        "warning must match the values computed from the abstract case. Under ocr_scrub the numbers are written with I/l/O/S look-alikes.",
        "A Twp/Rge without E/W is always followed by a section keyword (text starting with E/W there is inherently ambiguous).",
        "DESIGN.md section 4 C08",
    ),
    "C04": (
        "seeded Hypothesis generation; metamorphic insertion of a foreign word at every kind of boundary x parse modes; conservation invariant",
        "A foreign word (fixed marker, random alphabetic word, or an ordinary deed word that collides with pattern fragments) is inserted at any "
        "token or punctuation boundary of well-formed and damaged descriptions under eleven parse modes; it must reappear in a tract "
        "description or an unused_desc error flag. On undamaged descriptions every block word must survive in every mode.",
        "Words never full-match a PLSS keyword (harness table); a word starting with n/s/e/w is not placed directly after a number; words ending in a section keyword are not used.",
        "DESIGN.md section 4 C04",
    ),
    "C20": (
        "seeded Hypothesis generation; differential between parse modes on descriptions where the mode is not needed; model oracle for sec_within",
        "segment on/off on single-layout descriptions, both colon modes on fully-coloned descriptions, colon-less descriptions under "
        "default / cautious / required (config and keyword channels), and generated (leading, section(s), trailing, Twp/Rge placement) "
        "cases under sec_within with the expected tracts computed from the parts.",
        "Leading/trailing texts and blocks come from the harness vocabulary.",
        "DESIGN.md section 4 C20",
    ),
    "C13": (
        "seeded Hypothesis generation of configurations (round trip) and of witness descriptions per setting (three-channel differential + conflicts)",
        "Every assignment of the 16 settings is rendered to text in varying syntax, to a dict and to a Config object and must read back "
        "attribute-for-attribute and decompile idempotently; unknown names must raise ValueError; for every setting and both object types "
        "a witness description on which the setting bites is evaluated through config-at-creation, config assignment and keyword channels, "
        "which must agree, and in conflicts keyword beats config beats MasterConfig.",
        "Witness templates are fixed per setting with generated numbers/aliquots; a setting that bites through no channel on a witness is reported as a harness error, not a violation.",
        "DESIGN.md section 4 C13",
    ),
    "C14": (
        "model-based generation of operation histories (Hypothesis, one shrinkable value per history); snapshot invariants + fresh-object differential",
        "Histories of parse(commit), parse_tracts, preprocess, config assignment, sort and filter calls are applied to one PLSSDesc or Tract "
        "whose text raises tract- and description-level flags. After each step a deep snapshot of every public attribute must be unchanged "
        "for commit=False calls, equal to a freshly constructed object given the accumulated settings for committed ones, and unchanged by "
        "an immediate identical re-parse.",
        "Flags compared as multisets; every .config assignment restates all settings still wanted.",
        "DESIGN.md section 4 C14",
    ),
    "C15": (
        "model-based generation of process-wide activity histories; differential against the same probe in fresh interpreters",
        "Histories of unrelated parses, MasterConfig changes (temporary and persistent), TRS-cache clearing / disabling / pre-warming and "
        "mutation of every returned dict / list are interleaved with probe calls; each probe result must equal the result of that probe in a "
        "fresh interpreter started under the MasterConfig defaults then in force, and direction-less constructions must take exactly those defaults.",
        "Reference subprocesses evaluate up to six probes each; a defect that affects a fresh interpreter identically (e.g. import-time binding) is only visible through the direction model check.",
        "DESIGN.md section 4 C15",
    ),
    "C17": (
        "seeded Hypothesis generation of lists x key strings + exhaustive enumeration of key strings; reference model = successive stable sorts",
        "Lists of Tract / TRS elements over a small value space (ties, mixed directions, error and undefined components, repeated instances, "
        "shuffled creation order) are sorted with generated key strings through custom_sort, sort() and PLSSDesc.sort_tracts and compared, "
        "instance by instance, with a reference model; every single key (quick) and every pair of keys (thorough) is enumerated on a fixed "
        "pool; invalid keys must raise ValueError.",
        "Key rejection is asserted only for keys without any variable letter and for a direction of the other variable (DESIGN 6.8).",
        "DESIGN.md section 4 C17",
    ),
    "C18": (
        "seeded Hypothesis generation of element lists x operations x construction paths; plain-list reference models",
        "filter / filter_errors / filter_duplicates (all methods) with and without drop, group_by / group_by_nested with 1..3 attributes, "
        "into= (pre-populated) and unpack_group, and every construction path with iterables that contain at most one unacceptable element, "
        "for TractList, TRSList and the PLSSDesc wrappers, are compared element-identity-wise with plain-list models; a failed construction "
        "must raise TypeError and leave the container unchanged.",
        "'instance' duplicates are exercised on TractList only; dicts are not generated as containers.",
        "DESIGN.md section 4 C18",
    ),
    "C19": (
        "exhaustive enumeration over Tract.ATTRIBUTES x writers + seeded Hypothesis generation of selections / header options / file states; read-back oracle",
        "Every attribute name is exported alone through tracts_to_dict/list, the iterator forms, tracts_to_csv and TractWriter on descriptions that "
        "populate lots, acreages, flags with context, multi-line and quoted text; random selections (optionally with an unknown name), header "
        "options, write/append on new/existing files, several write() calls, plus_cols and uid are generated. Records must equal the attributes; "
        "the csv is read back with csv.reader and each cell must carry the scalar, or every leaf of the list/dict in order.",
        "List/dict cells: every leaf in order and no other alphanumeric content (exactly ', '.join for flat string lists); the UID cell format is not checked.",
        "DESIGN.md section 4 C19",
    ),
    "C16": (
        "enumerated and Hypothesis-sampled pumping families + structural repetition + soup; CPU time of an isolated, killable worker against a 2 s threshold",
        "prefix + unit^n + suffix for every atom of the patterns' vocabulary (alone and followed by a space; pairs of atoms sampled) at 25 anchor "
        "contexts and 7 suffixes, k-fold repetition of Twp/Rges / sections / lots / aliquots, and soup, all <= 300 characters, are parsed in a "
        "separate worker process whose CPU seconds are compared with 2.0 s (100x the ordinary cost).",
        "CPU time decides; a wall-clock timeout without CPU use is inconclusive. After three slow texts a shard stops measuring (the violation is established).",
        "DESIGN.md section 4 C16",
    ),
}

# additions to the level text (sub-checks added after the later rounds of seeded changes, DESIGN section 8)
EXTRA = {
    "C02": " A routes sub-check delivers the depth settings through ten routes (keywords over a contrary configuration, re-configured and re-parsed objects, PLSSDesc config / keywords, parse_tracts) in four spellings.",
    "C05": " Lists wrap over line breaks, run to 40 items, are parsed under the colon modes / segment, after the same text was read under other settings, and find_sec is given two lists in one text.",
    "C06": " Every case is also parsed as the tract of a PLSSDesc, and a dry run under other settings must leave every derived attribute alone.",
    "C07": " Chains written in front of lots must give the lots, divisions and acreages of the canonical spelling.",
    "C03": " Follow-up calls on the same object (dry runs, re-parses, parse_tracts) and a volume sub-check (12 000 / 40 000 distinct Twp/Rge/Sec in one process) are included.",
    "C10": " An after_queries sub-check parses descriptions lacking a section or Twp/Rge after public queries (is_error, filter_errors with arguments) about the very TRS strings involved.",
    "C11": " A segmented sub-check requires every Twp/Rge segment that has no other option to fall back on its own.",
    "C08": " Parse modes that are conservative on the generated texts (segment, colon modes, forced layout, sec_within) are switched on at random.",
    "C04": " Modes are also combined (any 1..3 flags with or without a mandated layout).",
    "C20": " Contradictory colon keywords, the required-mode fallback compared with a requested copy_all, a block that merely refers to another section, and sec_within combined with segment are included.",
    "C13": " Config objects are a channel of their own and must not be changed by the keyword overrides of the object that used them; wait_to_parse is enumerated over eight channels.",
    "C14": " A same-settings-same-result memo and a fixed set of canary parses (re-run after every history) catch state left behind in the process.",
    "C15": " Further operations: shared Config objects, dry-run-first tracts, one object parsed with one-off overrides and then plainly; a second sub-check runs canary parses after any parse of any text.",
    "C17": " A history sub-check interleaves sorts (string, list of keys, list led by a function) with growth and replacement of the same container.",
    "C18": " An independence sub-check builds a container from another one (constructor, copy, +, from_multiple, slice, *, *=) and mutates either side; from_multiple is also given one list object several times.",
    "C19": " Writers are reached through the TractList and the PLSSDesc; write() is handed eight kinds of argument (also the same object twice); iterators are consumed side by side.",
    "C16": " The dead-space and connective atoms are also pumped under each optional parse mode; the widest documented lot and section ranges are repeated; a short_shapes sub-check times every vocabulary token and a list of rare short forms (degenerate ranges, zero, boundary calls, empty brackets) in eight frames.",
    "C12": " Every edited string also goes through the setter and class-level entry points, equality / hash after normalisation is checked, the dict handed out by trs_to_dict may be changed by the caller, and empty input is enumerated over 15 entry points.",
}

NOT_BUILT = {}


def main():
    props = [json.loads(l) for l in open(os.path.join(HERE, "properties.jsonl"))]
    ids = [p["id"] for p in props]
    checks = []
    for pid in ids:
        if pid not in CHECKS:
            continue
        tech, text, note, ref = CHECKS[pid]
        text += EXTRA.get(pid, "")
        checks.append({
            "property_id": pid,
            "quick_cmd": f"./check {pid} --tier quick",
            "thorough_cmd": f"./check {pid} --tier thorough",
            "evidence_file": f"evidence/{pid}.json",
            "replay_cmd_template": f"./check {pid} --replay {{path}}",
            "engine": "pbt",
            "level_claimed": {"category": "exploration", "text": text, "design_ref": ref},
            "level_note": note,
            "technique": tech,
        })
    na = [{"property_id": pid, "reason": NOT_BUILT.get(pid, "check not built yet in this session (design in DESIGN.md section 4); will be claimed once its check is committed")}
          for pid in ids if pid not in CHECKS]
    try:
        commits = subprocess.run(["git", "-C", "/repo", "log", "--format=%h %s", "--grep=^hook:"],
                                 capture_output=True, text=True).stdout.strip().splitlines()
    except Exception:
        commits = []
    manifest = {
        "version": 1,
        "setup_cmd": "./setup.sh",
        "hooks": {
            "guard": "JAMESPIMES_PYTRS_VERIF",
            "enable": "no source hooks are needed: every observation point is public API; checks import pytrs from /repo's working tree (pure Python, nothing to build). The guard variable is set to 1 by the harness but nothing in /repo reads it.",
            "baseline_off_cmd": "cd /repo && env -u JAMESPIMES_PYTRS_VERIF /venv/bin/python -m pytest -q -p no:cacheprovider --timeout=900",
            "source_commits": [c.split()[0] for c in commits],
            "add_only": True,
        },
        "engines": [{
            "name": "pbt",
            "path": "check",
            "serves_properties": [c["property_id"] for c in checks],
            "kind_free_text": "seeded Hypothesis generators + finite enumerations, sharded over processes, explicit oracles (reference models, round trips, differentials, metamorphic relations), collect-then-shrink, JSON replay files",
        }],
        "checks": checks,
        "notes": "All checks: ./check <ID> --tier quick|thorough ; replay: ./check <ID> --replay <file>. VERIF_SEED selects the seed. Exit 0 held / 1 VIOLATION / 2 harness error. Known findings: KNOWN_FINDINGS.txt.",
        "not_applicable": na,
    }
    with open(os.path.join(HERE, "MANIFEST.json"), "w") as fh:
        json.dump(manifest, fh, indent=1)
    print(f"MANIFEST.json: {len(checks)} checks, {len(na)} not_applicable")


if __name__ == "__main__":
    main()
