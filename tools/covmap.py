#!/venv/bin/python
"""
tools/covmap.py <ID> [<ID> ...]   (diagnostic, not a registered check)

Runs shard 0 of every quick sub-check of the given properties in-process under coverage.py (branch coverage of /repo/pytrs)
and writes a data file per property to $COVDIR (default /tmp/cov).  `coverage combine` + `coverage report -m` then show
which lines and branches of the library no generator of ours reaches - the blind spots worth a look.
"""
import os
import sys

HERE = os.path.dirname(os.path.dirname(os.path.abspath(__file__)))
sys.path.insert(0, HERE)
import coverage  # noqa: E402

COVDIR = os.environ.get("COVDIR", "/tmp/cov")


def main():
    os.makedirs(COVDIR, exist_ok=True)
    for pid in sys.argv[1:]:
        cov = coverage.Coverage(data_file=os.path.join(COVDIR, f".coverage.{pid}"), branch=True, source=["/repo/pytrs"])
        cov.start()
        import importlib
        from vlib import core
        mod = importlib.import_module(f"props.{pid.lower()}")
        if hasattr(mod, "prepare"):
            mod.prepare("quick")
        for sub in mod.SUBS:
            if True:
                out = core.run_shard((mod.__name__, sub.name, "quick", 1, 0, sub.shards["quick"], []))
                print(pid, sub.name, out["evaluations"], "failures", list(out["failures"]), "harness", len(out["harness_errors"]), flush=True)
        cov.stop()
        cov.save()


if __name__ == "__main__":
    main()
