#!/venv/bin/python
"""tools/diffeval.py <reference.jsonl> [...]   Re-evaluate the texts recorded by tools/diffrun.py on the tree selected by
VERIF_REPO and report every text whose observable result differs from the recorded one."""
import json, os, sys, signal
sys.path.insert(0, os.path.dirname(os.path.dirname(os.path.abspath(__file__))))
from vlib import env
env.import_pytrs()
from pytrs import PLSSDesc, Tract, find_sec, find_twprge


class Timeout(Exception):
    pass


def handler(signum, frame):
    raise Timeout()


signal.signal(signal.SIGALRM, handler)


def observe(text):
    signal.alarm(3)
    try:
        d = PLSSDesc(text, parse_qq=True)
        r = {"pp": d.pp_desc, "layout": d.current_layout, "flags": list(map(str, d.flags)),
             "tracts": [[t.trs, t.desc, t.lots, t.qqs, list(map(str, t.flags)), t.lot_acres] for t in d.tracts],
             "find_sec": find_sec(text), "find_twprge": find_twprge(text, preprocess=True)}
        t = Tract(text, parse_qq=True)
        r["tract"] = [t.pp_desc, t.lots, t.qqs, t.lot_acres, list(map(str, t.flags))]
    except Timeout:
        r = "SLOW"
    except Exception as exc:
        r = {"EXC": f"{type(exc).__name__}: {exc}"}
    finally:
        signal.alarm(0)
    return json.loads(json.dumps(r))


tot = diff = slow_ref = slow_now = 0
shown = 0
for path in sys.argv[1:]:
    for line in open(path):
        x = json.loads(line)
        tot += 1
        now = observe(x["text"])
        if x["r"] == "SLOW":
            slow_ref += 1
        if now == "SLOW":
            slow_now += 1
        if now != x["r"] and "SLOW" not in (now, x["r"]):
            diff += 1
            if shown < 12:
                shown += 1
                print("DIFF", x["gen"], repr(x["text"])[:200])
                if isinstance(now, dict) and isinstance(x["r"], dict):
                    for k in x["r"]:
                        if x["r"][k] != now.get(k):
                            print("    ", k, "was", str(x["r"][k])[:260], "|| now", str(now.get(k))[:260])
print("compared", tot, "differences", diff, "slow in reference", slow_ref, "slow now", slow_now)
