#!/bin/sh
# Offline setup: make sure hypothesis is importable by /venv/bin/python; install atheris beside it for the fuzz tier.
set -e
cd "$(dirname "$0")"
if ! /venv/bin/python -c "import hypothesis" 2>/dev/null; then
  /venv/bin/pip install --no-index --find-links /opt/veriftools/wheels hypothesis
fi
mkdir -p .deps .work evidence
if ! PYTHONPATH=.deps /venv/bin/python -c "import atheris" 2>/dev/null; then
  /venv/bin/pip install --no-index --find-links /opt/veriftools/wheels --target .deps atheris >/dev/null 2>&1 || echo "atheris not installed (fuzz tier will be skipped)"
fi
/venv/bin/python -c "import hypothesis; print('hypothesis', hypothesis.__version__)"
